# Builds the jls library objects straight from /repo/src (current working tree) with -DJLS_VERIF,
# redirects their libc/pthread references to the simulator (objcopy --redefine-syms) and links jlssim.
REPO ?= /repo
B := build
LIBSRC := bit_shift buffer copy core crc32c datatype ec log msg_ring_buffer raw reader statistics \
          threaded_writer tmap track wr_fsr wr_ts writer backend_posix
SIMSRC := task simfs simalloc budget probes plan model gen exec specdec mon_twr oracles checks shrink main
CINC := -I$(REPO)/include -I$(REPO)/include_prv
CDEF := -DJLS_VERIF -DNDEBUG -DJLS_LOG_LEVEL=JLS_LOG_LEVEL_INFO -msse4.2
COV := -fsanitize-coverage=trace-pc-guard

ASAN_F := -fsanitize=address -fsanitize=bounds,null,return,unreachable,vla-bound -fno-sanitize-recover=all -fno-omit-frame-pointer
CC_asan := clang
CXX_asan := clang++
CFLAGS_asan := -O1 -g $(ASAN_F) $(COV)
CXXFLAGS_asan := -O1 -g $(ASAN_F)
LDFLAGS_asan := $(ASAN_F)

CC_plain := gcc
CXX_plain := g++
CFLAGS_plain := -O2 -g -std=gnu99
CXXFLAGS_plain := -O2 -g
LDFLAGS_plain :=

CC_swcrc := gcc
CXX_swcrc := g++
CFLAGS_swcrc := -O2 -g -std=gnu99 -DJLS_OPTIMIZE_CRC_DISABLE=1
CXXFLAGS_swcrc := -O2 -g
LDFLAGS_swcrc :=

CC_race := clang
CXX_race := clang++
CFLAGS_race := -O1 -g -fsanitize=thread -mllvm -tsan-distinguish-volatile $(COV)
CXXFLAGS_race := -O1 -g -DSIM_RACE=1
LDFLAGS_race := -rdynamic -ldl

# measurement only (tools/coverage.sh): source-based coverage of the library under the simulated workloads
CC_cov := clang
CXX_cov := clang++
CFLAGS_cov := -O0 -g -fprofile-instr-generate -fcoverage-mapping
CXXFLAGS_cov := -O1 -g
LDFLAGS_cov := -fprofile-instr-generate

VARIANTS := asan plain swcrc race cov

all: asan plain
.PHONY: all clean $(VARIANTS)

define VARIANT_RULES
$(1): $(B)/$(1)/jlssim
$(B)/$(1)/lib/%.o: $(REPO)/src/%.c sim/seams.map sim/seams_twr.map sim/seams_race.map
	@mkdir -p $$(dir $$@)
	$$(CC_$(1)) $$(CFLAGS_$(1)) $(CDEF) $(CINC) -D__FILENAME__='"$$*.c"' -MMD -MP -MT $$@ -MF $$(basename $$@).d -c $$< -o $$@.tmp.o
	objcopy --redefine-syms=sim/seams.map $$@.tmp.o
	@if [ "$$*" = "threaded_writer" ]; then objcopy --redefine-syms=sim/seams_twr.map $$@.tmp.o; fi
	@if [ "$(1)" = "race" ]; then objcopy --redefine-syms=sim/seams_race.map $$@.tmp.o; fi
	@mv $$@.tmp.o $$@
$(B)/$(1)/sim/%.o: sim/%.cpp sim/*.h sim/*.inc
	@mkdir -p $$(dir $$@)
	$$(CXX_$(1)) -std=c++17 $$(CXXFLAGS_$(1)) -Wall -Wno-unused-function $(CINC) -DJLS_VERIF -DSIM_VARIANT='"$(1)"' -c $$< -o $$@
$(B)/$(1)/jlssim: $(addprefix $(B)/$(1)/lib/,$(addsuffix .o,$(LIBSRC))) $(addprefix $(B)/$(1)/sim/,$(addsuffix .o,$(SIMSRC))) $$(EXTRA_$(1))
	$$(CXX_$(1)) $$(LDFLAGS_$(1)) -o $$@ $$^ -lm
-include $(B)/$(1)/lib/*.d
endef
EXTRA_race := $(B)/race/sim/race_rt.o
$(foreach v,$(VARIANTS),$(eval $(call VARIANT_RULES,$(v))))

clean:
	rm -rf $(B)
