#include "mon.h"
#include <cstdio>
#include <cstdarg>
extern "C" {
#include "jls/writer.h"
#include "jls/msg_ring_buffer.h"
}

namespace mon {
std::vector<Enq> enq;
std::vector<Applied> applied;
std::vector<std::string> queue_violations;
std::deque<QEntry> refq;
uint64_t n_alloc_ok, n_alloc_fail, n_wrap, n_reset, n_spurious_full, max_count;
std::unordered_set<uint64_t> queue_states;
double spurious_full_p = 0;
static Rng frng;
static bool active = false;

static void reset_model_head();
void reset_queue_monitor() {
    refq.clear(); queue_violations.clear(); reset_model_head();
    n_alloc_ok = n_alloc_fail = n_wrap = n_reset = n_spurious_full = max_count = 0;
}
void begin_run(const Plan &p) {
    enq.clear(); applied.clear(); reset_queue_monitor();
    spurious_full_p = p.faults.spurious_full; frng = rng_derive(p.seed, "spurious_full");
    active = true;
}
void end_run() { active = false; }

static void qviol(const char *cls, const char *fmt, ...) __attribute__((format(printf, 2, 3)));
static void qviol(const char *cls, const char *fmt, ...) {
    char buf[256]; va_list ap; va_start(ap, fmt); vsnprintf(buf, sizeof buf, fmt, ap); va_end(ap);
    if (queue_violations.size() < 8) queue_violations.push_back(std::string(cls) + "|" + buf);
}
static void note_state(struct jls_mrb_s *q) {
    uint64_t h = fnv_u64(q->buf_size, 0xcbf29ce484222325ULL); h = fnv_u64(((uint64_t) q->head << 32) | q->tail, h); h = fnv_u64(q->count, h);
    if (queue_states.size() < 2000000) queue_states.insert(h);
    if (q->count > max_count) max_count = q->count;
}
// Reference view of free space. Occupied: every un-popped message [off-4, off+size) and, after a wrap whose marker the consumer
// has not passed yet, the dead tail [marker, capacity). The queue can only place a message at its head or (wrapping) at 0.
static uint32_t model_head = 0; static int64_t marker_pos = -1;
static uint32_t largest_free(uint32_t cap) {
    std::vector<std::pair<uint32_t, uint32_t>> occ;
    for (auto &q : refq) occ.push_back({q.off - 4, q.off + q.size});
    if (marker_pos >= 0) occ.push_back({(uint32_t) marker_pos, cap});
    if (occ.empty()) return cap;
    auto gap_at = [&](uint32_t pos) { uint32_t end = cap; for (auto &o : occ) { if (o.first <= pos && pos < o.second) return 0u; if (o.first >= pos && o.first < end) end = o.first; } return end - pos; };
    uint32_t a = gap_at(model_head >= cap ? 0 : model_head), b = gap_at(0);
    return a > b ? a : b;
}
}

namespace mon { static void reset_model_head() { model_head = 0; marker_pos = -1; } }
using namespace mon;
uint32_t mon_fsr_bits[256];

extern "C" {
void race_exclude(uintptr_t a, uintptr_t b) __attribute__((weak));

void mon_jls_mrb_init(struct jls_mrb_s *self, uint8_t *buffer, uint32_t buffer_size) {
    jls_mrb_init(self, buffer, buffer_size);
    if (race_exclude) {     // control fields in front of the queue inside the jls_twr_s block are out of scope (volatile flags, tickets, size table)
        uintptr_t base = 0; size_t size = 0; uint64_t id = 0;
        if (simalloc::find_block(self, &base, &size, &id)) race_exclude(base, (uintptr_t) self);
    }
    refq.clear(); reset_model_head();
}

uint8_t *mon_jls_mrb_alloc(struct jls_mrb_s *self, uint32_t size) {
    if (spurious_full_p > 0 && frng.chance(spurious_full_p)) {
        ++n_spurious_full; sim::fault_counts[F_SPURIOUS_FULL]++;
        sim::event(EV_FAULT, F_SPURIOUS_FULL, size, 0);
        return nullptr;
    }
    uint32_t head0 = self->head, tail0 = self->tail, cap = self->buf_size;
    uint8_t *p = jls_mrb_alloc(self, size);
    if (!p) {
        ++n_alloc_fail; sim::fault_counts[F_QUEUE_FULL]++;
        sim::event(EV_MON, 1, size, -1);
        uint32_t lf = largest_free(cap);
        if ((uint64_t) size + 12 <= lf) {
            char q0[64] = ""; if (!refq.empty()) snprintf(q0, sizeof q0, " front=(%u,%u) back=(%u,%u)", refq.front().off, refq.front().size, refq.back().off, refq.back().size);
            qviol("alloc_failed_but_fits", "size=%u cap=%u head=%u tail=%u count=%u largest_free=%u queued=%zu%s", size, cap, head0, tail0, self->count, lf, refq.size(), q0);
        }
        note_state(self);
        return nullptr;
    }
    ++n_alloc_ok;
    int64_t off = p - self->buf;
    if (off < 4 || (uint64_t) off + size > cap) {
        qviol("region_outside_buffer", "size=%u cap=%u off=%lld head=%u tail=%u", size, cap, (long long) off, head0, tail0);
    } else {
        uint32_t s = (uint32_t) off - 4, e = (uint32_t) off + size;
        for (auto &q : refq) {
            uint32_t qs = q.off - 4, qe = q.off + q.size;
            if (s < qe && qs < e) { qviol("region_overlaps_unpopped", "new=[%u,%u) old=[%u,%u) cap=%u", s, e, qs, qe, cap); break; }
        }
        if (off == 4 && head0 != 0) {
            if (self->tail == 0) { ++n_reset; sim::fault_counts[F_QUEUE_RESET]++; marker_pos = -1; }    // empty queue: pointers were reset
            else { ++n_wrap; sim::fault_counts[F_QUEUE_WRAP]++; marker_pos = head0; }                 // wrap marker written at the old head
        }
        model_head = e >= cap ? 0 : e;
    }
    refq.push_back(QEntry{(uint32_t) off, size});
    uint64_t seq = sim::event(EV_MON, 0, size, off);
    enq.push_back(Enq{sim::cur_task(), sim::cur_op(), size, seq, (uint32_t) off});
    note_state(self);
    return p;
}

static void check_head(const char *what, struct jls_mrb_s *self, uint8_t *p, uint32_t size) {
    if (!p) {
        if (!refq.empty()) qviol("lost_message", "%s returned NULL with %zu queued (head=%u tail=%u)", what, refq.size(), self->head, self->tail);
        return;
    }
    if (refq.empty()) { qviol("phantom_message", "%s returned a message from an empty queue (size=%u)", what, size); return; }
    int64_t off = p - self->buf;
    if (off == 4) marker_pos = -1;      // the consumer has passed the wrap marker
    if (off != (int64_t) refq.front().off || size != refq.front().size)
        qviol("wrong_message", "%s returned off=%lld size=%u, expected off=%u size=%u", what, (long long) off, size, refq.front().off, refq.front().size);
}

uint8_t *mon_jls_mrb_peek(struct jls_mrb_s *self, uint32_t *size) {
    uint8_t *p = jls_mrb_peek(self, size);
    check_head("peek", self, p, *size);
    note_state(self);
    return p;
}
uint8_t *mon_jls_mrb_pop(struct jls_mrb_s *self, uint32_t *size) {
    uint8_t *p = jls_mrb_pop(self, size);
    check_head("pop", self, p, *size);
    if (p && !refq.empty()) refq.pop_front();
    sim::event(EV_MON, 2, p ? *size : 0, p ? p - self->buf : -1);
    note_state(self);
    return p;
}

// ---------------------------------------------------------------- applied-call history
static Applied &begin_applied(int kind) {
    Applied a; memset((void *) &a, 0, sizeof a);
    a.kind = kind; a.task = sim::cur_task(); a.op = sim::cur_op(); a.seq_begin = sim::event(EV_MON, 10, kind, 0); a.rc = -999;
    applied.push_back(a);
    return applied.back();
}
static int32_t end_applied(size_t idx, int32_t rc) {
    applied[idx].rc = rc; applied[idx].seq_end = sim::event(EV_MON, 11, applied[idx].kind, rc);
    return rc;
}

int32_t mon_jls_wr_open(struct jls_wr_s **instance, const char *path) { return jls_wr_open(instance, path); }
int32_t mon_jls_wr_close(struct jls_wr_s *self) { begin_applied(OP_CLOSE); size_t i = applied.size() - 1; return end_applied(i, jls_wr_close(self)); }
int32_t mon_jls_wr_flush(struct jls_wr_s *self) { begin_applied(OP_FLUSH); size_t i = applied.size() - 1; return end_applied(i, jls_wr_flush(self)); }
int32_t mon_jls_wr_source_def(struct jls_wr_s *self, const struct jls_source_def_s *s) {
    Applied &a = begin_applied(OP_SRC); a.sig = s->source_id; size_t i = applied.size() - 1;
    return end_applied(i, jls_wr_source_def(self, s));
}
int32_t mon_jls_wr_signal_def(struct jls_wr_s *self, const struct jls_signal_def_s *s) {
    Applied &a = begin_applied(OP_SIG); a.sig = s->signal_id; size_t i = applied.size() - 1;
    int32_t rc = jls_wr_signal_def(self, s);
    if (rc == 0 && s->signal_id < 256) mon_fsr_bits[s->signal_id] = jls_datatype_parse_size(s->data_type);   // the definition the writer accepted decides the sample size
    return end_applied(i, rc);
}
int32_t mon_jls_wr_user_data(struct jls_wr_s *self, uint16_t chunk_meta, enum jls_storage_type_e st, const uint8_t *data, uint32_t size) {
    Applied &a = begin_applied(OP_USER); a.meta = chunk_meta; a.st = st; a.n = size; a.payload_len = size; a.payload_hash = fnv1a(data, size);
    size_t i = applied.size() - 1;
    return end_applied(i, jls_wr_user_data(self, chunk_meta, st, data, size));
}
int32_t mon_jls_wr_fsr(struct jls_wr_s *self, uint16_t signal_id, int64_t sample_id, const void *data, uint32_t n) {
    Applied &a = begin_applied(OP_FSR); a.sig = signal_id; a.a = sample_id; a.n = n;
    uint32_t bits = signal_id < 256 ? mon_fsr_bits[signal_id] : 0;
    a.payload_len = (size_t) (((uint64_t) n * bits + 7) / 8); a.payload_hash = fnv1a(data, a.payload_len);
    size_t i = applied.size() - 1;
    return end_applied(i, jls_wr_fsr(self, signal_id, sample_id, data, n));
}
int32_t mon_jls_wr_fsr_omit_data(struct jls_wr_s *self, uint16_t signal_id, uint32_t enable) {
    Applied &a = begin_applied(OP_OMIT); a.sig = signal_id; a.n = enable; size_t i = applied.size() - 1;
    return end_applied(i, jls_wr_fsr_omit_data(self, signal_id, enable));
}
int32_t mon_jls_wr_annotation(struct jls_wr_s *self, uint16_t signal_id, int64_t timestamp, float y, enum jls_annotation_type_e at, uint8_t grp,
                              enum jls_storage_type_e st, const uint8_t *data, uint32_t size) {
    Applied &a = begin_applied(OP_ANNO); a.sig = signal_id; a.a = timestamp; a.at = at; a.grp = grp; a.st = st; memcpy(&a.ybits, &y, 4); a.n = size;
    a.payload_len = size; a.payload_hash = fnv1a(data, size);
    size_t i = applied.size() - 1;
    return end_applied(i, jls_wr_annotation(self, signal_id, timestamp, y, at, grp, st, data, size));
}
int32_t mon_jls_wr_utc(struct jls_wr_s *self, uint16_t signal_id, int64_t sample_id, int64_t utc) {
    Applied &a = begin_applied(OP_UTC); a.sig = signal_id; a.a = sample_id; a.b = utc; size_t i = applied.size() - 1;
    return end_applied(i, jls_wr_utc(self, signal_id, sample_id, utc));
}
}
