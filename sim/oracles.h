// Oracles: compare reader outputs with the reference model (per property clauses).
#pragma once
#include "exec.h"

namespace oracle {
struct Tol { long double eps_store; long double c = 16; };
// check one reader call against the model; violations are attributed to `prop`.
// prefix_len >= 0: the file is a crash image – signal `sig` is only known to hold a prefix (handled by caller through a trimmed model)
void check_call(const std::string &prop, const Model &m, const Op &o, const CallRec &c, int read_index, Violations &v);
void check_dump(const std::string &prop, const Model &m, const Plan &p, const Dump &d, Violations &v, bool check_cold);
// statistics of a model window in long double
struct Exact { long double mean, var_sample, mn, mx; int64_t n; bool any_nan; };
Exact exact_stats(const MSignal &s, int64_t a, int64_t n);
// parsing helpers for canonical outputs
struct RAnno { int64_t t; int at, st, grp; uint32_t ybits; std::vector<uint8_t> data; };
bool parse_annos(const std::vector<uint8_t> &out, std::vector<RAnno> &lst);
struct RUser { uint32_t meta, st; std::vector<uint8_t> data; };
bool parse_users(const std::vector<uint8_t> &out, std::vector<RUser> &lst);
extern uint64_t n_calls_checked, n_calls_unjudged;
}
