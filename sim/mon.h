// Monitors wrapped around the calls threaded_writer.o makes on the queue and on the synchronous writer.
#pragma once
#include "plan.h"
#include <deque>
#include <unordered_set>

namespace mon {
struct Enq { int task; int op; uint32_t size; uint64_t seq; uint32_t off; };
struct Applied {
    int kind;              // OpKind of the applied call (OP_FSR, OP_ANNO, OP_UTC, OP_USER, OP_OMIT, OP_FLUSH, OP_SRC, OP_SIG, OP_CLOSE)
    int task; int op;      // op: for definition/close calls the calling task's current op; for messages filled by the oracle
    uint64_t seq_begin, seq_end; int rc;
    int sig; int64_t a, b; int64_t n; int st, at, grp; uint32_t ybits; int meta;
    uint64_t payload_hash; size_t payload_len;
};
struct QEntry { uint32_t off; uint32_t size; };

extern std::vector<Enq> enq;
extern std::vector<Applied> applied;
extern std::vector<std::string> queue_violations;     // C08 monitor findings (class|detail)
extern std::deque<QEntry> refq;
extern uint64_t n_alloc_ok, n_alloc_fail, n_wrap, n_reset, n_spurious_full, max_count;
extern std::unordered_set<uint64_t> queue_states;      // distinct (capacity, head, tail, count), whole process
extern double spurious_full_p;

void begin_run(const Plan &p);
void end_run();
void reset_queue_monitor();
}

extern "C" {
struct jls_mrb_s;
void mon_jls_mrb_init(struct jls_mrb_s *self, uint8_t *buffer, uint32_t buffer_size);
uint8_t *mon_jls_mrb_alloc(struct jls_mrb_s *self, uint32_t size);
uint8_t *mon_jls_mrb_peek(struct jls_mrb_s *self, uint32_t *size);
uint8_t *mon_jls_mrb_pop(struct jls_mrb_s *self, uint32_t *size);
}
