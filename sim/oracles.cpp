#include "oracles.h"
#include <cmath>
#include <cstdio>
#include <cstdarg>
#include <algorithm>

namespace oracle {
uint64_t n_calls_checked = 0, n_calls_unjudged = 0;

static std::string fmt(const char *f, ...) __attribute__((format(printf, 1, 2)));
static std::string fmt(const char *f, ...) { char b[512]; va_list ap; va_start(ap, f); vsnprintf(b, sizeof b, f, ap); va_end(ap); return b; }

Exact exact_stats(const MSignal &s, int64_t a, int64_t n) {
    Exact e; e.n = n; e.any_nan = false; e.mn = INFINITY; e.mx = -INFINITY;
    long double sum = 0;
    for (int64_t i = 0; i < n; ++i) {
        long double v = s.value(a + i);
        if (std::isnan((double) v)) { e.any_nan = true; continue; }
        sum += v; if (v < e.mn) e.mn = v; if (v > e.mx) e.mx = v;
    }
    e.mean = n ? sum / n : 0;
    long double ss = 0;
    for (int64_t i = 0; i < n; ++i) { long double v = s.value(a + i); if (std::isnan((double) v)) continue; long double d = v - e.mean; ss += d * d; }
    e.var_sample = n > 1 ? ss / (n - 1) : 0;
    return e;
}

static long double to_store(int dtype, long double v) { return dt_summary64(dtype) ? (long double) (double) v : (long double) (float) v; }

static bool rd_i64(const std::vector<uint8_t> &o, size_t &pos, int64_t &v) { if (pos + 8 > o.size()) return false; memcpy(&v, o.data() + pos, 8); pos += 8; return true; }
static bool rd_u32(const std::vector<uint8_t> &o, size_t &pos, uint32_t &v) { if (pos + 4 > o.size()) return false; memcpy(&v, o.data() + pos, 4); pos += 4; return true; }

bool parse_annos(const std::vector<uint8_t> &out, std::vector<RAnno> &lst) {
    size_t pos = 0;
    while (pos < out.size()) {
        RAnno a; uint32_t sz;
        if (!rd_i64(out, pos, a.t) || pos + 3 > out.size()) return false;
        a.at = out[pos]; a.st = out[pos + 1]; a.grp = out[pos + 2]; pos += 3;
        if (!rd_u32(out, pos, a.ybits) || !rd_u32(out, pos, sz) || pos + sz > out.size()) return false;
        a.data.assign(out.begin() + pos, out.begin() + pos + sz); pos += sz;
        lst.push_back(a);
    }
    return true;
}
bool parse_users(const std::vector<uint8_t> &out, std::vector<RUser> &lst) {
    size_t pos = 0;
    while (pos < out.size()) {
        RUser u; uint32_t sz;
        if (!rd_u32(out, pos, u.meta) || !rd_u32(out, pos, u.st) || !rd_u32(out, pos, sz) || pos + sz > out.size()) return false;
        u.data.assign(out.begin() + pos, out.begin() + pos + sz); pos += sz;
        lst.push_back(u);
    }
    return true;
}

static int64_t rebase_of(const MSignal &s) { return (s.sigtype == 0 && s.has_data) ? s.first_id : 0; }

static void check_fsr(const std::string &prop, const MSignal &s, const Op &o, const CallRec &c, int ri, Violations &v) {
    int64_t len = s.length();
    if (o.n <= 0) { ++n_calls_unjudged; return; }
    if (o.a < 0 || o.a + o.n > len) {
        if (c.rc == 0) add_violation(v, prop, "read_outside_span_succeeded", fmt("sig=%d %s start=%lld n=%lld len=%lld rc=0", s.id, dt_name[s.dtype], (long long) o.a, (long long) o.n, (long long) len), ri);
        return;
    }
    if (c.rc != 0) { add_violation(v, prop, "read_failed", fmt("sig=%d %s start=%lld n=%lld len=%lld rc=%d", s.id, dt_name[s.dtype], (long long) o.a, (long long) o.n, (long long) len, c.rc), ri); return; }
    std::vector<uint8_t> exp; s.window(o.a, o.n, exp);
    int bits = dt_bits[s.dtype];
    if (exp.size() != c.out.size()) { add_violation(v, prop, "read_size", fmt("sig=%d out=%zu exp=%zu", s.id, c.out.size(), exp.size()), ri); return; }
    if (memcmp(exp.data(), c.out.data(), exp.size()) == 0) return;
    // locate first differing sample; gap samples of float signals only need to be NaN
    for (int64_t i = 0; i < o.n; ++i) {
        uint64_t e = bits_get(exp.data(), (uint64_t) i, bits), g = bits_get(c.out.data(), (uint64_t) i, bits);
        if (e == g) continue;
        if (dt_is_float(s.dtype) && s.in_gap(o.a + i)) {
            long double gv = raw_to_value(s.dtype, g);
            if (std::isnan((double) gv)) continue;
            add_violation(v, prop, "gap_not_nan", fmt("sig=%d %s sample=%lld got=0x%llx", s.id, dt_name[s.dtype], (long long) (o.a + i), (unsigned long long) g), ri);
            return;
        }
        // blocks omitted on request are synthesised from the summary: only the count and type are promised (C15)
        if (dt_bits[s.dtype] > 8 && s.in_omitted(o.a + i)) continue;
        const char *cls = s.in_gap(o.a + i) ? "gap_not_zero" : "sample_mismatch";
        add_violation(v, prop, cls, fmt("sig=%d %s window=[%lld,+%lld) first_bad=%lld (abs id %lld) got=0x%llx exp=0x%llx len=%lld first_id=%lld",
                                        s.id, dt_name[s.dtype], (long long) o.a, (long long) o.n, (long long) (o.a + i), (long long) (s.first_id + o.a + i),
                                        (unsigned long long) g, (unsigned long long) e, (long long) len, (long long) s.first_id), ri);
        return;
    }
}

static void check_stats(const std::string &prop, const MSignal &s, const Op &o, const CallRec &c, int ri, Violations &v) {
    int64_t len = s.length();
    int64_t inc = o.b, cnt = o.n;
    if (inc <= 0 || cnt <= 0 || o.a < 0 || o.a + inc * cnt > len) { ++n_calls_unjudged; return; }
    if (s.dtype == DT_U24 || s.dtype == DT_I24) { ++n_calls_unjudged; return; }           // reader cannot summarise 24-bit types
    // level-0 statistics over blocks omitted on request use synthesised samples: not judged (stored summaries are judged by C15 / the decoder)
    if (dt_bits[s.dtype] > 8) for (auto &g : s.omitted) if (g.first < o.a + inc * cnt + inc && g.second > o.a - inc) { ++n_calls_unjudged; return; }
    if (c.rc == 26 /* JLS_ERROR_UNSUPPORTED_FILE: 64-bit level-0 */ && dt_bits[s.dtype] == 64) { ++n_calls_unjudged; return; }
    // windows containing gap fill are judged by C09 only for floats (NaN ignored); others unjudged here
    bool has_gap = false;
    for (auto &g : s.gaps) if (g.first < o.a + inc * cnt + inc && g.second > o.a - inc) has_gap = true;
    if (has_gap && !dt_is_float(s.dtype)) { /* integer fill is ordinary zeros: judge normally */ }
    if (c.rc != 0) { add_violation(v, prop, "stats_failed", fmt("sig=%d %s start=%lld inc=%lld cnt=%lld len=%lld rc=%d", s.id, dt_name[s.dtype], (long long) o.a, (long long) inc, (long long) cnt, (long long) len, c.rc), ri); return; }
    if (c.out.size() != (size_t) cnt * 32) { add_violation(v, prop, "stats_size", fmt("sig=%d out=%zu", s.id, c.out.size()), ri); return; }
    const double *d = (const double *) c.out.data();
    long double eps = dt_summary64(s.dtype) ? ldexpl(1, -53) : ldexpl(1, -24);
    const long double C = 16;
    if (cnt == 1) {
        Exact e = exact_stats(s, o.a, inc);
        if (e.any_nan) {
            if (!dt_is_float(s.dtype)) return;
            // float window containing skipped (gap) samples - C09: gap samples count as absent.  Entries that straddle the gap are weighted
            // as if complete (at every level), so the mean is only required to lie within the extremes of the samples that are present;
            // min and max are exact over those; a window without any present sample has no statistics (all NaN).
            int64_t present = 0; for (int64_t i = 0; i < inc; ++i) if (!std::isnan((double) s.value(o.a + i))) ++present;
            double mean = d[0], mn = d[2], mx = d[3];
            if (present == 0) {
                if (!(std::isnan(mean) && std::isnan(mn) && std::isnan(mx)))
                    add_violation(v, prop, "gap_window_not_absent", fmt("sig=%d %s start=%lld inc=%lld lies inside a gap: mean=%.17g min=%.17g max=%.17g, expected no statistics (NaN)", s.id, dt_name[s.dtype], (long long) o.a, (long long) inc, mean, mn, mx), ri);
                return;
            }
            long double tolg = C * eps * std::max(fabsl(e.mn), fabsl(e.mx)) + 1e-300L;
            if (std::isnan(mean) || std::isnan(mn) || std::isnan(mx) || to_store(s.dtype, mn) != to_store(s.dtype, e.mn) || to_store(s.dtype, mx) != to_store(s.dtype, e.mx)
                || (long double) mean < to_store(s.dtype, e.mn) - tolg || (long double) mean > to_store(s.dtype, e.mx) + tolg)
                add_violation(v, prop, "gap_samples_not_absent", fmt("sig=%d %s start=%lld inc=%lld (%lld of %lld samples present): mean=%.17g min=%.17g max=%.17g; present samples have min=%.17Lg max=%.17Lg", s.id, dt_name[s.dtype],
                                                                     (long long) o.a, (long long) inc, (long long) present, (long long) inc, mean, mn, mx, e.mn, e.mx), ri);
            return;
        }
        long double mag = std::max(fabsl(e.mn), fabsl(e.mx));
        long double tol = (C * eps + (long double) inc * ldexpl(1, -52)) * mag + 1e-300L;
        double mean = d[0], sd = d[1], mn = d[2], mx = d[3];
        if (to_store(s.dtype, mn) != to_store(s.dtype, e.mn) || to_store(s.dtype, mx) != to_store(s.dtype, e.mx)) {
            add_violation(v, prop, "stats_minmax", fmt("sig=%d %s start=%lld inc=%lld: min=%.17g max=%.17g exact min=%.17Lg max=%.17Lg", s.id, dt_name[s.dtype], (long long) o.a, (long long) inc, mn, mx, e.mn, e.mx), ri);
            return;
        }
        if (!(fabsl((long double) mean - e.mean) <= tol)) {
            add_violation(v, prop, "stats_mean", fmt("sig=%d %s start=%lld inc=%lld: mean=%.17g exact=%.17Lg tol=%.3Lg", s.id, dt_name[s.dtype], (long long) o.a, (long long) inc, mean, e.mean, tol), ri);
            return;
        }
        long double sigma = sqrtl(e.var_sample);
        uint32_t pp[7]; for (int i = 0; i < 7; ++i) pp[i] = s.p[i];
        // d = level-1 decimation; use the smallest legal value (10) for the lower bound so the bound never depends on re-deriving normalisation
        long double dmin = 10.0L;
        long double tau = C * eps + (long double) inc * ldexpl(1, -52), alpha = (C * eps + (long double) inc * ldexpl(1, -52)) * mag + 1e-300L;   // accumulated rounding of n additions
        long double lo = sqrtl((dmin - 1) / dmin) * sigma * (1 - tau) - alpha, hi = sigma * (1 + tau) + alpha;
        if (inc == 1) { lo = -alpha; }
        // A single window of fewer than 250 samples is always answered from the stored samples (a summary level needs increment >= decimation >= 10
        // and 25 decimations of duration): there the std is the sample std itself, computed in double - no summary precision, no decimation factor.
        if (inc > 1 && inc < 250 && dt_bits[s.dtype] < 64) { long double a0 = mag * ldexpl(1, -40) + 1e-300L; lo = sigma * (1 - 1e-9L) - a0; hi = sigma * (1 + 1e-9L) + a0; }
        if (!((long double) sd >= lo && (long double) sd <= hi)) {
            add_violation(v, prop, "stats_std", fmt("sig=%d %s start=%lld inc=%lld: std=%.17g true sample std=%.17Lg bounds=[%.17Lg,%.17Lg]", s.id, dt_name[s.dtype], (long long) o.a, (long long) inc, sd, sigma, lo, hi), ri);
        }
        (void) pp;
        return;
    }
    // multi-window
    long double sum_means = 0; bool any_nan_out = false;
    Exact whole = exact_stats(s, o.a, inc * cnt);
    if (whole.any_nan) { ++n_calls_unjudged; return; }
    long double magw = std::max(fabsl(whole.mn), fabsl(whole.mx));
    for (int64_t k = 0; k < cnt; ++k) {
        int64_t w0 = std::max<int64_t>(0, o.a + (k - 1) * inc), w1 = std::min<int64_t>(len, o.a + (k + 2) * inc);
        Exact e = exact_stats(s, w0, w1 - w0);
        if (e.any_nan) { ++n_calls_unjudged; return; }
        long double mag = std::max(fabsl(e.mn), fabsl(e.mx));
        long double tol = C * eps * mag + 1e-300L;
        double mean = d[k * 4 + 0], mn = d[k * 4 + 2], mx = d[k * 4 + 3];
        if (std::isnan(mean)) any_nan_out = true;
        sum_means += mean;
        long double lo = to_store(s.dtype, e.mn) - tol, hi = to_store(s.dtype, e.mx) + tol;
        if (!((long double) mean >= lo && (long double) mean <= hi && (long double) mn >= lo && (long double) mn <= hi && (long double) mx >= lo && (long double) mx <= hi)) {
            add_violation(v, prop, "stats_multi_entry", fmt("sig=%d %s start=%lld inc=%lld cnt=%lld entry=%lld: mean=%.17g min=%.17g max=%.17g outside widened extremes [%.17Lg,%.17Lg]",
                                                            s.id, dt_name[s.dtype], (long long) o.a, (long long) inc, (long long) cnt, (long long) k, mean, mn, mx, lo, hi), ri);
            return;
        }
    }
    (void) any_nan_out;
    long double avg = sum_means / cnt;
    long double tol = (C * eps + (long double) (inc * cnt) * ldexpl(1, -52)) * magw + 1e-300L;
    if (!(fabsl(avg - whole.mean) <= tol))
        add_violation(v, prop, "stats_multi_mean", fmt("sig=%d %s start=%lld inc=%lld cnt=%lld: avg of means=%.17Lg exact=%.17Lg tol=%.3Lg", s.id, dt_name[s.dtype], (long long) o.a, (long long) inc, (long long) cnt, avg, whole.mean, tol), ri);
}

static void check_anno(const std::string &prop, const MSignal &s, const Op &o, const CallRec &c, int ri, Violations &v) {
    if (c.rc != 0) { add_violation(v, prop, "anno_failed", fmt("sig=%d t=%lld rc=%d", s.id, (long long) o.a, c.rc), ri); return; }
    std::vector<RAnno> got;
    if (!parse_annos(c.out, got)) { add_violation(v, prop, "anno_parse", "harness could not parse the delivered annotations", ri); return; }
    int64_t off = rebase_of(s);
    size_t total = s.annos.size();
    // first index with timestamp >= t (reader coordinates)
    size_t ge = 0; while (ge < total && s.annos[ge].t - off < o.a) ++ge;
    // delivered must be model[k .. k+got) with ge-1 <= k <= ge
    auto same = [&](const RAnno &g, const MAnno &m) {
        return g.t == m.t - off && g.at == m.at && g.st == m.st && g.grp == m.grp && g.ybits == m.ybits && g.data == m.data;
    };
    size_t k_found = (size_t) -1;
    for (size_t k = (ge > 0 ? ge - 1 : 0); k <= ge; ++k) {
        if (k + got.size() > total) continue;
        bool ok = true;
        for (size_t i = 0; i < got.size() && ok; ++i) ok = same(got[i], s.annos[k + i]);
        if (ok) {
            size_t en = total - k; if (o.n > 0) en = std::min<size_t>(en, (size_t) o.n);
            if (got.size() == en) return;        // a contiguous tail with every annotation >= t and at most one earlier, stopped where asked
            if (k_found == (size_t) -1) k_found = k;
        }
    }
    size_t want_tail = total - ge;
    if (k_found == (size_t) -1) {
        // describe
        std::string d = fmt("sig=%d seek_t=%lld delivered=%zu written=%zu first_ge=%zu rebase=%lld", s.id, (long long) o.a, got.size(), total, ge, (long long) off);
        if (!got.empty()) d += fmt(" first_delivered_t=%lld", (long long) got[0].t);
        add_violation(v, prop, o.a <= INT64_MIN / 8 ? "anno_list_mismatch" : "anno_seek_mismatch", d, ri);
        return;
    }
    size_t expect_n = total - k_found;
    if (o.n > 0) expect_n = std::min<size_t>(expect_n, (size_t) o.n);
    if (got.size() != expect_n) {
        const char *cls = (o.n > 0 && got.size() > (size_t) o.n) ? "anno_stop_ignored" : (o.a <= INT64_MIN / 8 ? "anno_list_mismatch" : "anno_seek_omits");
        add_violation(v, prop, cls, fmt("sig=%d seek_t=%lld stop_after=%lld delivered=%zu expected=%zu (tail from index %zu of %zu, %zu have t>=seek)", s.id, (long long) o.a, (long long) o.n, got.size(), expect_n, k_found, total, want_tail), ri);
    }
}

static void check_utc(const std::string &prop, const MSignal &s, const Op &o, const CallRec &c, int ri, Violations &v) {
    if (c.rc != 0) { add_violation(v, prop, "utc_failed", fmt("sig=%d id=%lld rc=%d", s.id, (long long) o.a, c.rc), ri); return; }
    int64_t off = rebase_of(s);
    size_t total = s.utcs.size(), ge = 0;
    while (ge < total && s.utcs[ge].id - off < o.a) ++ge;
    size_t ngot = c.out.size() / 16;
    const int64_t *g = (const int64_t *) c.out.data();
    size_t expect = total - ge;
    size_t cmp = std::min(ngot, expect);
    for (size_t i = 0; i < cmp; ++i) {
        if (g[2 * i] != s.utcs[ge + i].id - off || g[2 * i + 1] != s.utcs[ge + i].utc) {
            add_violation(v, prop, "utc_list_mismatch", fmt("sig=%d seek=%lld entry=%zu got=(%lld,%lld) exp=(%lld,%lld) written=%zu", s.id, (long long) o.a, i, (long long) g[2 * i], (long long) g[2 * i + 1],
                                                            (long long) (s.utcs[ge + i].id - off), (long long) s.utcs[ge + i].utc, total), ri);
            return;
        }
    }
    if (ngot > expect) { add_violation(v, prop, "utc_extra", fmt("sig=%d seek=%lld delivered=%zu expected=%zu", s.id, (long long) o.a, ngot, expect), ri); return; }
    if (o.n > 0) { if (ngot < std::min<size_t>(expect, (size_t) o.n)) add_violation(v, prop, "utc_missing", fmt("sig=%d seek=%lld stop_after=%lld delivered=%zu expected>=%zu", s.id, (long long) o.a, (long long) o.n, ngot, std::min<size_t>(expect, (size_t) o.n)), ri); }
    else if (ngot != expect) add_violation(v, prop, "utc_missing", fmt("sig=%d seek=%lld delivered=%zu expected=%zu of %zu written", s.id, (long long) o.a, ngot, expect, total), ri);
}

// exact rational check: |t - (y0 + (q-x0)*(y1-y0)/(x1-x0))| <= tol ticks
static bool within_interp(int64_t q, int64_t t, int64_t x0, int64_t y0, int64_t x1, int64_t y1, int64_t tol) {
    __int128 ds = (__int128) x1 - x0, dt = (__int128) y1 - y0, dk = (__int128) q - x0;
    __int128 lhs = ((__int128) t - y0) * ds - dk * dt;     // = (t - exact) * ds
    if (lhs < 0) lhs = -lhs;
    return lhs <= (__int128) tol * (ds < 0 ? -ds : ds);
}

static void check_conv(const std::string &prop, const MSignal &s, const Op &o, const CallRec &c, int ri, Violations &v) {
    int64_t off = rebase_of(s);
    // the reader's map holds entries with reader-coordinate id >= -3600*rate
    std::vector<MUtc> u;
    for (auto &e : s.utcs) if (e.id - off >= -3600LL * (int64_t) s.p[0]) u.push_back(MUtc{e.id - off, e.utc});
    if (u.size() != s.utcs.size()) { ++n_calls_unjudged; return; }
    if (u.empty()) { if (c.rc == 0) add_violation(v, prop, "conv_without_utc", fmt("sig=%d conversion succeeded without any UTC entry", s.id), ri); return; }
    if (c.rc != 0) { add_violation(v, prop, "conv_failed", fmt("sig=%d q=%lld rc=%d entries=%zu", s.id, (long long) o.a, c.rc, u.size()), ri); return; }
    int64_t res; memcpy(&res, c.out.data(), 8);
    bool s2t = o.kind == RD_S2T;
    auto X = [&](size_t i) { return s2t ? u[i].id : u[i].utc; };
    auto Y = [&](size_t i) { return s2t ? u[i].utc : u[i].id; };
    if (u.size() == 1) {
        // extrapolate from the sample rate: ticks = samples * 2^30 / rate
        long double rate = s.p[0];
        long double exact = s2t ? (long double) u[0].utc + (long double) (o.a - u[0].id) * 1073741824.0L / rate
                                : (long double) u[0].id + (long double) (o.a - u[0].utc) * rate / 1073741824.0L;
        long double anchor = s2t ? (long double) u[0].utc : (long double) u[0].id, dist = s2t ? (long double) (o.a - u[0].id) : (long double) (o.a - u[0].utc);
        bool far1 = fabsl(exact - anchor) >= 9007199254740992.0L / 4 || fabsl(dist) >= 9007199254740992.0L / 4;     // same double arithmetic as the multi-entry case (known finding)
        if (fabsl((long double) res - exact) > 1.0L + fabsl(exact) * ldexpl(1, -52))
            add_violation(v, prop, far1 ? (s2t ? "conv_s2t_far" : "conv_t2s_far") : "conv_single", fmt("sig=%d %s q=%lld got=%lld exact=%.3Lf", s.id, s2t ? "s2t" : "t2s", (long long) o.a, (long long) res, exact), ri);
        return;
    }
    // duplicates in X (equal utc for t2s) make the segment choice ambiguous: find any admissible segment
    size_t lo = 0;
    while (lo + 2 < u.size() && X(lo + 1) <= o.a) ++lo;
    // exact anchors
    for (size_t i = 0; i < u.size(); ++i) if (s2t && X(i) == o.a && res != Y(i)) {
        add_violation(v, prop, "conv_anchor", fmt("sig=%d s2t anchor id=%lld got=%lld stored=%lld", s.id, (long long) o.a, (long long) res, (long long) Y(i)), ri); return; }
    bool ok = false;
    for (size_t k = (lo > 0 ? lo - 1 : 0); k <= lo + 1 && k + 1 < u.size(); ++k) {
        if (X(k + 1) == X(k)) continue;
        bool inside = (o.a >= X(k) && o.a <= X(k + 1)) || (k == 0 && o.a < X(0)) || (k + 2 == u.size() && o.a > X(k + 1));
        if (inside && within_interp(o.a, res, X(k), Y(k), X(k + 1), Y(k + 1), 1)) ok = true;
    }
    // products beyond 2^53 cannot be exact in the double arithmetic of the time map: separate class (known finding)
    long double span = fabsl((long double) (o.a - X(lo)) * (long double) (Y(lo + 1) - Y(lo)) / (long double) std::max<int64_t>(1, X(lo + 1) - X(lo)));
    bool far = span >= 9007199254740992.0L / 4 || fabsl((long double) (o.a - X(lo))) >= 9007199254740992.0L / 4;
    if (!ok) add_violation(v, prop, far ? (s2t ? "conv_s2t_far" : "conv_t2s_far") : (s2t ? "conv_s2t" : "conv_t2s"), fmt("sig=%d q=%lld got=%lld entries=%zu segment_lo=%zu x0=%lld y0=%lld x1=%lld y1=%lld", s.id, (long long) o.a, (long long) res, u.size(), lo,
                                                                      (long long) X(lo), (long long) Y(lo), (long long) X(lo + 1), (long long) Y(lo + 1)), ri);
    // round trip (s2t only): out carries [t, rc_back, s_back]
    if (s2t && ok && c.out.size() >= 24) {
        int64_t rcb, sb; memcpy(&rcb, c.out.data() + 8, 8); memcpy(&sb, c.out.data() + 16, 8);
        bool flat = false;     // zero-slope segments are not invertible
        for (size_t k = 0; k + 1 < u.size(); ++k) if (u[k + 1].utc == u[k].utc) flat = true;
        if (!flat && (rcb != 0 || llabs(sb - o.a) > 1))
            add_violation(v, prop, "conv_roundtrip", fmt("sig=%d id=%lld -> t=%lld -> id=%lld (rc=%lld)", s.id, (long long) o.a, (long long) res, (long long) sb, (long long) rcb), ri);
    }
}

static void ser_u32(std::vector<uint8_t> &o, uint32_t v) { exec::ser_bytes(o, &v, 4); }
static void ser_s(std::vector<uint8_t> &o, const std::string &s) { ser_u32(o, (uint32_t) s.size()); exec::ser_bytes(o, s.data(), s.size()); }

// signal def as the reader serialises it, with the four storage parameters taken from `got` (they are not re-derived by the model)
static bool signal_matches(const MSignal &s, const std::vector<uint8_t> &got, size_t &pos, std::string &why) {
    auto u32 = [&](uint32_t &x) { if (pos + 4 > got.size()) return false; memcpy(&x, got.data() + pos, 4); pos += 4; return true; };
    uint32_t id, src, st, dt, rate, spd, sdf, eps, sumdf, adf, udf; int64_t offs;
    if (!u32(id) || !u32(src) || !u32(st) || !u32(dt) || !u32(rate) || !u32(spd) || !u32(sdf) || !u32(eps) || !u32(sumdf) || !u32(adf) || !u32(udf)) { why = "short"; return false; }
    if (pos + 8 > got.size()) { why = "short"; return false; }
    memcpy(&offs, got.data() + pos, 8); pos += 8;
    std::string name, units;
    for (int k = 0; k < 2; ++k) {
        uint32_t n; if (!u32(n)) { why = "short"; return false; }
        std::string t; if (n != 0xffffffffu) { if (pos + n > got.size()) { why = "short"; return false; } t.assign((const char *) got.data() + pos, n); pos += n; }
        (k ? units : name) = t;
    }
    char b[256];
    if ((int) id != s.id) { snprintf(b, sizeof b, "id %u != %d", id, s.id); why = b; return false; }
    if ((int) src != s.src || (int) st != s.sigtype || dt != dt_code[s.dtype]) { snprintf(b, sizeof b, "sig %d: src/type/dtype %u/%u/0x%x != %d/%d/0x%x", s.id, src, st, dt, s.src, s.sigtype, dt_code[s.dtype]); why = b; return false; }
    uint32_t exp_rate = s.sigtype ? 0 : s.p[0];
    if (rate != exp_rate) { snprintf(b, sizeof b, "sig %d: rate %u != %u", s.id, rate, exp_rate); why = b; return false; }
    if (name != s.name || units != s.units) { snprintf(b, sizeof b, "sig %d: name/units differ (len %zu/%zu vs %zu/%zu)", s.id, name.size(), units.size(), s.name.size(), s.units.size()); why = b; return false; }
    int64_t exp_off = (s.sigtype == 0 && s.has_data) ? s.first_id : 0;
    if (offs != exp_off) { snprintf(b, sizeof b, "sig %d: sample_id_offset %lld != %lld", s.id, (long long) offs, (long long) exp_off); why = b; return false; }
    // storage parameters: must respect the requested values' minimums and be non-zero (exact relations are the decoder's job)
    if (s.id != 0 && (spd == 0 || sdf == 0 || eps == 0 || sumdf == 0)) { snprintf(b, sizeof b, "sig %d: zero storage parameter", s.id); why = b; return false; }
    uint32_t exp_adf = s.p[5] ? s.p[5] : adf, exp_udf = s.p[6] ? s.p[6] : udf;     // defaults are the library's choice
    if (s.p[5] == 1) exp_adf = adf >= 2 ? adf : 1; if (s.p[6] == 1) exp_udf = udf >= 2 ? udf : 1;   // a factor of 1 cannot decimate: any larger stored value is a legitimate normalisation
    if (s.id != 0 && (adf != exp_adf || udf != exp_udf || adf == 0 || udf == 0)) { snprintf(b, sizeof b, "sig %d: adf/udf %u/%u != %u/%u", s.id, adf, udf, exp_adf, exp_udf); why = b; return false; }
    return true;
}

void check_call(const std::string &prop, const Model &m, const Op &o, const CallRec &c, int ri, Violations &v) {
    if (c.skipped) return;
    ++n_calls_checked;
    auto it = m.signals.find(o.sig);
    switch (o.kind) {
        case RD_LEN: {
            if (it == m.signals.end() || it->second.sigtype != 0) { if (c.rc == 0) add_violation(v, prop, "len_of_undefined", fmt("sig=%d rc=0", o.sig), ri); return; }
            if (c.rc != 0) { add_violation(v, prop, "length_failed", fmt("sig=%d rc=%d", o.sig, c.rc), ri); return; }
            int64_t n; memcpy(&n, c.out.data(), 8);
            if (n != it->second.length()) add_violation(v, prop, "length_mismatch", fmt("sig=%d %s reported=%lld written=%lld first_id=%lld spd=%u sdf=%u eps=%u sumdf=%u", o.sig, dt_name[it->second.dtype], (long long) n, (long long) it->second.length(),
                                                                                         (long long) it->second.first_id, it->second.p[1], it->second.p[2], it->second.p[3], it->second.p[4]), ri);
            return;
        }
        case RD_FSR: case RD_FSR_F32:
            if (it == m.signals.end() || it->second.sigtype != 0) { if (c.rc == 0 && o.n > 0) add_violation(v, prop, "read_of_undefined", fmt("sig=%d rc=0", o.sig), ri); return; }
            if (o.kind == RD_FSR_F32 && it->second.dtype != DT_F32) { if (c.rc == 0) add_violation(v, prop, "f32_read_of_non_f32", fmt("sig=%d rc=0", o.sig), ri); return; }
            check_fsr(prop, it->second, o, c, ri, v); return;
        case RD_STATS:
            if (it == m.signals.end() || it->second.sigtype != 0) { if (c.rc == 0 && o.n > 0 && o.b > 0) add_violation(v, prop, "stats_of_undefined", fmt("sig=%d rc=0", o.sig), ri); return; }
            check_stats(prop, it->second, o, c, ri, v); return;
        case RD_ANNO:
            if (it == m.signals.end()) { if (c.rc == 0 && c.n_delivered) add_violation(v, prop, "anno_of_undefined", fmt("sig=%d delivered=%lld", o.sig, (long long) c.n_delivered), ri); return; }
            check_anno(prop, it->second, o, c, ri, v); return;
        case RD_UTC:
            if (it == m.signals.end() || it->second.sigtype != 0) { if (c.rc == 0 && c.n_delivered) add_violation(v, prop, "utc_of_undefined", fmt("sig=%d", o.sig), ri); return; }
            check_utc(prop, it->second, o, c, ri, v); return;
        case RD_S2T: case RD_T2S:
            if (it == m.signals.end() || it->second.sigtype != 0) { if (c.rc == 0) add_violation(v, prop, "conv_of_undefined", fmt("sig=%d", o.sig), ri); return; }
            check_conv(prop, it->second, o, c, ri, v); return;
        case RD_USER: {
            if (c.rc != 0) { add_violation(v, prop, "user_failed", fmt("rc=%d", c.rc), ri); return; }
            std::vector<RUser> got;
            if (!parse_users(c.out, got)) { add_violation(v, prop, "user_parse", "harness parse", ri); return; }
            size_t expect_n = m.users.size(); if (o.n > 0) expect_n = std::min<size_t>(expect_n, (size_t) o.n);
            if (got.size() != expect_n) { add_violation(v, prop, "user_count", fmt("delivered=%zu expected=%zu written=%zu stop_after=%lld", got.size(), expect_n, m.users.size(), (long long) o.n), ri); return; }
            for (size_t i = 0; i < got.size(); ++i) {
                const MUser &e = m.users[i];
                if ((int) got[i].meta != e.meta || (int) got[i].st != e.st || got[i].data != e.data) {
                    add_violation(v, prop, "user_mismatch", fmt("item=%zu meta=%u/%d st=%u/%d size=%zu/%zu", i, got[i].meta, e.meta, got[i].st, e.st, got[i].data.size(), e.data.size()), ri); return; }
            }
            return;
        }
        case RD_SIGNAL: {
            if (it == m.signals.end()) { if (c.rc == 0) add_violation(v, prop, "signal_of_undefined", fmt("sig=%d rc=0", o.sig), ri); return; }
            if (c.rc != 0) { add_violation(v, prop, "signal_failed", fmt("sig=%d rc=%d", o.sig, c.rc), ri); return; }
            size_t pos = 0; std::string why;
            if (!signal_matches(it->second, c.out, pos, why)) add_violation(v, prop, "signal_def_mismatch", why, ri);
            return;
        }
        case RD_SIGNALS: {
            if (c.rc != 0) { add_violation(v, prop, "signals_failed", fmt("rc=%d", c.rc), ri); return; }
            size_t pos = 0; uint32_t n = 0; if (c.out.size() >= 4) { memcpy(&n, c.out.data(), 4); pos = 4; }
            if (n != m.signals.size()) { add_violation(v, prop, "signals_count", fmt("reported=%u defined=%zu", n, m.signals.size()), ri); return; }
            for (auto &kv : m.signals) { std::string why; if (!signal_matches(kv.second, c.out, pos, why)) { add_violation(v, prop, "signal_def_mismatch", why, ri); return; } }
            return;
        }
        case RD_SOURCES: {
            if (c.rc != 0) { add_violation(v, prop, "sources_failed", fmt("rc=%d", c.rc), ri); return; }
            std::vector<uint8_t> exp; ser_u32(exp, (uint32_t) m.sources.size());
            for (auto &kv : m.sources) { ser_u32(exp, (uint32_t) kv.first); for (int i = 0; i < 5; ++i) ser_s(exp, kv.second.s[i]); }
            // reader may report NULL (0xffffffff) for absent strings? property: absent strings read back as empty
            if (exp != c.out) add_violation(v, prop, "source_def_mismatch", fmt("enumeration differs (sizes %zu vs %zu, %zu sources defined)", c.out.size(), exp.size(), m.sources.size()), ri);
            return;
        }
        default: return;
    }
}

void check_dump(const std::string &prop, const Model &m, const Plan &p, const Dump &d, Violations &v, bool check_cold) {
    if (d.open_rc != 0) { add_violation(v, prop, "open_failed", fmt("jls_rd_open rc=%d on a closed file", d.open_rc)); return; }
    for (size_t i = 0; i < p.reads.size() && i < d.calls.size(); ++i) {
        check_call(prop, m, p.reads[i], d.calls[i], (int) i, v);
        if (check_cold && p.reads[i].cold && !d.cold[i].skipped) {
            if (d.cold[i].rc != d.calls[i].rc || d.cold[i].out != d.calls[i].out)
                add_violation(v, prop, "warm_cold_differ", fmt("read %zu (%s): same call on a fresh reader differs (rc %d vs %d, %zu vs %zu bytes)", i, p.reads[i].to_text().c_str(), d.calls[i].rc, d.cold[i].rc, d.calls[i].out.size(), d.cold[i].out.size()), (int) i);
        }
    }
}
} // namespace oracle
