#pragma once
#include "model.h"
