// Independent JLS decoder written from include/jls/format.h and README only (no library code).
#pragma once
#include "model.h"

namespace specdec {
struct Chunk {
    uint64_t off = 0, next = 0, prev = 0; uint8_t tag = 0, rsv = 0; uint16_t meta = 0; uint32_t plen = 0, pprev = 0, crc = 0;
    bool hdr_ok = false, payload_ok = false; uint64_t payload_off = 0, end = 0;
    // payload header (for track data/index/summary chunks)
    int64_t ts = 0; uint32_t entries = 0; uint16_t entry_bits = 0;
};
struct DSummaryEntry { double mean, std, mn, mx; };
struct DTrackLevel { std::vector<size_t> index_chunks, summary_chunks; };
struct DSignal {
    int id = 0, src = 0, sigtype = 0; uint32_t dtype_code = 0, rate = 0, spd = 0, sdf = 0, eps = 0, sumdf = 0, adf = 0, udf = 0;
    std::string name, units;
    size_t def_chunk = 0;
    // per track type (0 fsr, 1 vsr, 2 anno, 3 utc)
    bool has_track_def[4] = {false, false, false, false}; bool has_head[4] = {false, false, false, false}; size_t head_chunk[4] = {0, 0, 0, 0};
    uint64_t head_offsets[4][16];
    std::vector<size_t> data_chunks[4];
    DTrackLevel levels[4][16];
};
struct DSource { int id; std::string s[5]; };
struct DUser { uint16_t meta; uint8_t st; std::vector<uint8_t> data; };
struct Decoded {
    bool header_ok = false; uint64_t hdr_length = 0; uint32_t version = 0;
    std::vector<Chunk> chunks;
    std::map<uint64_t, size_t> by_off;
    std::map<int, DSource> sources; std::map<int, DSignal> signals; std::vector<DUser> users;
    std::vector<std::string> errors;      // "class|detail"
    bool closed = false;                  // END chunk present and last
    bool repaired_mode = false;           // file was closed by a repairing open: unlinked leftovers and missing track definitions are tolerated
    void err(const char *cls, const char *fmt, ...) __attribute__((format(printf, 3, 4)));
};
uint32_t crc32c(const uint8_t *p, size_t n);
// structural walk; fills chunk table, lists, definitions. expect_closed: require END chunk and header length
void decode(const std::vector<uint8_t> &file, Decoded &d, bool expect_closed);
// compare the logical content recovered from the walk with the model (definitions, samples, summaries, annotations, utc, user data)
struct ContentOpts { bool check_summaries = true; bool samples_must_be_complete = true; };
void compare_with_model(const std::vector<uint8_t> &file, const Decoded &d, const Model &m, const ContentOpts &o, std::vector<std::string> &errors);
// protected regions of a closed file for fault injection: [start,end) + kind (0 file header, 1 chunk header, 2 payload+pad+crc)
struct Region { uint64_t start, end; int kind; size_t chunk; };
void regions(const Decoded &d, std::vector<Region> &out);
// number of summary levels present (max over FSR tracks) and chunk count
int max_fsr_level(const Decoded &d);
}
