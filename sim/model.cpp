#include "model.h"

void bits_append(std::vector<uint8_t> &dst, uint64_t dst_n, const uint8_t *src, uint64_t src_off, uint64_t count, int bits) {
    if (bits >= 8) {
        size_t by = bits / 8;
        dst.resize((size_t) ((dst_n + count) * by));
        if (count) memcpy(dst.data() + dst_n * by, src + src_off * by, (size_t) (count * by));
        return;
    }
    uint64_t total_bits = (dst_n + count) * bits;
    dst.resize((size_t) ((total_bits + 7) / 8), 0);
    // clear bits beyond dst_n in the last existing byte
    uint64_t db = dst_n * bits;
    if (db & 7) dst[db >> 3] &= (uint8_t) ((1u << (db & 7)) - 1);
    for (size_t i = (size_t) ((db + 7) >> 3); i < dst.size(); ++i) dst[i] = 0;
    uint64_t sb = src_off * bits;
    uint64_t nb = count * bits;
    if (((db | sb) & 7) == 0) {
        memcpy(dst.data() + (db >> 3), src + (sb >> 3), (size_t) (nb >> 3));
        if (nb & 7) dst[(db + nb) >> 3] = src[(sb + nb) >> 3] & (uint8_t) ((1u << (nb & 7)) - 1);
        return;
    }
    for (uint64_t i = 0; i < nb; ++i) {
        uint64_t s = sb + i, d = db + i;
        if ((src[s >> 3] >> (s & 7)) & 1) dst[d >> 3] |= (uint8_t) (1u << (d & 7));
    }
}

long double raw_to_value(int dtype, uint64_t raw) {
    int bits = dt_bits[dtype];
    if (dtype == DT_F32) { float f; uint32_t u = (uint32_t) raw; memcpy(&f, &u, 4); return f; }
    if (dtype == DT_F64) { double d; memcpy(&d, &raw, 8); return d; }
    if (dt_is_signed(dtype)) {
        int64_t v = (int64_t) raw;
        if (bits < 64 && (raw >> (bits - 1)) & 1) v = (int64_t) (raw | (~0ULL << bits));
        return (long double) v;
    }
    return (long double) raw;
}

uint64_t MSignal::raw(int64_t idx) const { return bits_get(bits.data(), (uint64_t) idx, dt_bits[dtype]); }
long double MSignal::value(int64_t idx) const { return raw_to_value(dtype, raw(idx)); }
bool MSignal::in_gap(int64_t idx) const { for (auto &g : gaps) if (idx >= g.first && idx < g.second) return true; return false; }
void MSignal::window(int64_t start, int64_t n, std::vector<uint8_t> &out) const {
    out.clear();
    bits_append(out, 0, bits.data(), (uint64_t) start, (uint64_t) n, dt_bits[dtype]);
}

Model::Model() {
    MSource s0; s0.id = 0; s0.s[0] = "global_annotation_source"; s0.s[1] = "jls"; s0.s[2] = "-"; s0.s[3] = "1.0.0"; s0.s[4] = "-";
    sources[0] = s0;
    MSignal g; g.id = 0; g.src = 0; g.sigtype = 1; g.dtype = DT_F32; g.name = "global_annotation_signal"; g.units = "";
    g.p[0] = 0; g.p[1] = 10; g.p[2] = 10; g.p[3] = 10; g.p[4] = 10; g.p[5] = 100; g.p[6] = 100;
    signals[0] = g;
}

void op_payload(const Op &o, std::vector<uint8_t> &out) {
    switch (o.kind) {
        case OP_FSR: gen_fill(o.dtype, o.g, o.gs, o.a, (uint64_t) o.n, out); break;
        case OP_ANNO: case OP_USER: gen_bytes(o.gs, (size_t) o.n, o.st, out); break;
        default: out.clear();
    }
}

int Model::expect(const Op &o) const {
    switch (o.kind) {
        case OP_SRC:
            if (o.src < 0 || o.src > 255 || sources.count(o.src)) return 1;
            for (int k = 0; k < 5; ++k) if (o.sl[k] >= (1 << 20) - 16) return 2;     // a string of about one string block: an implementation limit may refuse it
            return 0;
        case OP_SIG:
            if (o.sig < 0 || o.sig > 255 || o.src < 0 || o.src > 255) return 1;
            if (signals.count(o.sig) || !sources.count(o.src)) return 1;
            if (o.sigtype == 0 && o.p[0] == 0) return 1;     // FSR requires a sample rate
            if (o.dtx) {     // raw data type codes of misuse programs: a code that is no documented type must be refused; a fixed-point position on an integer type is legal
                uint32_t base = o.dtx & 0x0f, size = (o.dtx >> 8) & 0xff, q = (o.dtx >> 16) & 0xff; bool top = (o.dtx >> 24) != 0;
                bool ok_int = (base == 1 && (size == 4 || size == 8 || size == 16 || size == 24 || size == 32 || size == 64)) || (base == 3 && (size == 1 || size == 4 || size == 8 || size == 16 || size == 24 || size == 32 || size == 64));
                bool ok_flt = base == 4 && (size == 32 || size == 64) && q == 0;
                if ((o.dtx & 0xf0) || !(ok_int || ok_flt)) return 1;
                (void) top;      // bits above the fixed-point position are not documented either way
                return 2;
            }
            for (int k = 0; k < 2; ++k) if (o.sl[k] >= (1 << 20) - 16) return 2;
            return 0;
        case OP_FSR: case OP_OMIT: case OP_UTC: {
            auto it = signals.find(o.sig);
            if (it == signals.end() || it->second.sigtype != 0) return 1;
            return 0;
        }
        case OP_ANNO: return signals.count(o.sig) ? 0 : 1;
        case OP_USER: return o.en ? 1 : 0;      // en: NULL data with a non-zero size must be refused
        default: return 0;
    }
}

void Model::apply(const Op &o) {
    switch (o.kind) {
        case OP_SRC: {
            MSource s; s.id = o.src;
            for (int i = 0; i < 5; ++i) { if (o.sl[i] < 0) { s.null_[i] = true; s.s[i] = ""; } else s.s[i] = gen_string(o.gs, i, o.sl[i]); }
            sources[o.src] = s; break;
        }
        case OP_SIG: {
            MSignal s; s.id = o.sig; s.src = o.src; s.sigtype = o.sigtype; s.dtype = o.dtype;
            for (int i = 0; i < 7; ++i) s.p[i] = o.p[i];
            s.name = o.sl[0] < 0 ? "" : gen_string(o.gs, 0, o.sl[0]); s.units = o.sl[1] < 0 ? "" : gen_string(o.gs, 1, o.sl[1]);
            signals[o.sig] = s; break;
        }
        case OP_FSR: {
            MSignal &s = signals[o.sig];
            if (o.n <= 0) break;
            std::vector<uint8_t> data; gen_fill(s.dtype, o.g, o.gs, o.a, (uint64_t) o.n, data);
            int bits = dt_bits[s.dtype];
            if (!s.has_data) { s.has_data = true; s.first_id = o.a; s.next_id = o.a; }
            uint64_t cur = (uint64_t) (s.next_id - s.first_id);
            if (o.a == s.next_id) {
                bits_append(s.bits, cur, data.data(), 0, (uint64_t) o.n, bits); s.next_id += o.n;
            } else if (o.a < s.next_id) {
                if (o.a + o.n <= s.next_id) break;
                uint64_t ff = (uint64_t) (s.next_id - o.a);
                bits_append(s.bits, cur, data.data(), ff, (uint64_t) o.n - ff, bits); s.next_id = o.a + o.n;
            } else {
                uint64_t gap = (uint64_t) (o.a - s.next_id);
                std::vector<uint8_t> fill((size_t) ((gap * bits + 7) / 8) + 8, 0);
                if (s.dtype == DT_F32) { uint32_t nanb = 0x7fc00000u; for (uint64_t i = 0; i < gap; ++i) memcpy(fill.data() + i * 4, &nanb, 4); }
                if (s.dtype == DT_F64) { uint64_t nanb = 0x7ff8000000000000ULL; for (uint64_t i = 0; i < gap; ++i) memcpy(fill.data() + i * 8, &nanb, 8); }
                bits_append(s.bits, cur, fill.data(), 0, gap, bits);
                s.gaps.push_back({(int64_t) cur, (int64_t) (cur + gap)});
                bits_append(s.bits, cur + gap, data.data(), 0, (uint64_t) o.n, bits); s.next_id = o.a + o.n;
            }
            break;
        }
        case OP_OMIT: { MSignal &s = signals[o.sig]; s.omit_events.push_back({s.length(), o.en}); break; }
        case OP_ANNO: {
            MAnno a; a.t = o.a; a.at = o.at; a.st = o.st; a.grp = o.grp; a.ybits = o.ybits;
            gen_bytes(o.gs, (size_t) o.n, o.st, a.data);
            signals[o.sig].annos.push_back(a); break;
        }
        case OP_UTC: signals[o.sig].utcs.push_back(MUtc{o.a, o.b}); break;
        case OP_USER: {
            MUser u; u.meta = o.meta & 0x0fff; u.st = o.st;
            gen_bytes(o.gs, (size_t) o.n, o.st, u.data);
            users.push_back(u); break;
        }
        default: break;
    }
}
