#include "exec.h"
#include "mon.h"
#include <cstdlib>
#include <cstdio>
#include <deque>
#include <pthread.h>
extern "C" {
#include "jls/writer.h"
#include "jls/reader.h"
#include "jls/threaded_writer.h"
#include "jls/copy.h"
#include "jls/raw.h"
#include "jls/ec.h"
#include "jls/msg_ring_buffer.h"
int sim_pthread_mutex_init(pthread_mutex_t *, const pthread_mutexattr_t *);
int sim_pthread_mutex_lock(pthread_mutex_t *);
int sim_pthread_mutex_unlock(pthread_mutex_t *);
extern uint32_t jls_verif_mrb_buffer_size;
extern size_t jls_verif_buf_default_size;
}
namespace sim { int wait_task(int id); }
extern uint32_t mon_fsr_bits[256];

namespace exec {

void ser_i64(std::vector<uint8_t> &o, int64_t v) { uint8_t b[8]; memcpy(b, &v, 8); o.insert(o.end(), b, b + 8); }
void ser_bytes(std::vector<uint8_t> &o, const void *p, size_t n) { const uint8_t *b = (const uint8_t *) p; o.insert(o.end(), b, b + n); }
static void ser_u32(std::vector<uint8_t> &o, uint32_t v) { ser_bytes(o, &v, 4); }
static void ser_str(std::vector<uint8_t> &o, const char *s) { if (!s) { ser_u32(o, 0xffffffffu); return; } uint32_t n = (uint32_t) strlen(s); ser_u32(o, n); ser_bytes(o, s, n); }

void apply_knobs(const Plan &p) {
    jls_verif_mrb_buffer_size = p.mrb_size ? p.mrb_size : 64u * 1024 * 1024;
    jls_verif_buf_default_size = p.buf_default ? p.buf_default : (1u << 20);
}

// exact-size caller buffers straight from the process allocator, so that an overrun is a sanitizer report
struct ExactBuf {
    uint8_t *p; size_t n;
    explicit ExactBuf(size_t n_) : n(n_) { p = (uint8_t *) malloc(n ? n : 1); }
    ExactBuf(const std::vector<uint8_t> &v, size_t n_) : n(n_) { p = (uint8_t *) malloc(n ? n : 1); if (n) { memset(p, 0, n); memcpy(p, v.data(), std::min(n, v.size())); } }
    ~ExactBuf() { free(p); }
};

struct DefStrings { std::string s[5]; const char *c[5]; };
static void def_strings(const Op &o, int count, DefStrings &d) {
    for (int i = 0; i < count; ++i) {
        if (o.sl[i] < 0) d.c[i] = nullptr; else { d.s[i] = gen_string(o.gs, i, o.sl[i]); d.c[i] = d.s[i].c_str(); }
    }
}

static size_t fsr_bytes(int dtype, int64_t n) { return (size_t) (((uint64_t) n * dt_bits[dtype] + 7) / 8); }
// The caller's sample buffers are sized for the type the signal was defined with.  In misuse programs an op may name
// another type than any definition of its signal: the buffer then has room for the widest of them (the library cannot
// know which type the caller had in mind, so only the defined type's size is "as documented").
static const Plan *g_cur_plan = nullptr;
static int widest_bits(int sig, int dtype) {
    int bits = dt_bits[dtype];
    if (g_cur_plan) for (auto &o : g_cur_plan->ops) if (o.kind == OP_SIG && o.sig == sig) bits = std::max(bits, dt_bits[o.dtype]);
    return bits;
}
static size_t fsr_bytes_sig(int sig, int dtype, int64_t n) { return (size_t) (((uint64_t) n * (uint64_t) widest_bits(sig, dtype) + 7) / 8); }

// dtype of a signal as defined earlier in the plan (for FSR ops the generator also stores it in the op)
static int32_t do_sync_op(struct jls_wr_s *wr, const Op &o) {
    switch (o.kind) {
        case OP_SRC: {
            DefStrings d; def_strings(o, 5, d);
            struct jls_source_def_s s; memset(&s, 0, sizeof s);
            s.source_id = (uint16_t) o.src; s.name = d.c[0]; s.vendor = d.c[1]; s.model = d.c[2]; s.version = d.c[3]; s.serial_number = d.c[4];
            return jls_wr_source_def(wr, &s);
        }
        case OP_SIG: {
            DefStrings d; def_strings(o, 2, d);
            struct jls_signal_def_s s; memset(&s, 0, sizeof s);
            s.signal_id = (uint16_t) o.sig; s.source_id = (uint16_t) o.src; s.signal_type = (uint8_t) o.sigtype; s.data_type = o.dtx ? o.dtx : dt_code[o.dtype];
            s.sample_rate = o.p[0]; s.samples_per_data = o.p[1]; s.sample_decimate_factor = o.p[2]; s.entries_per_summary = o.p[3];
            s.summary_decimate_factor = o.p[4]; s.annotation_decimate_factor = o.p[5]; s.utc_decimate_factor = o.p[6];
            s.name = d.c[0]; s.units = d.c[1];
            return jls_wr_signal_def(wr, &s);
        }
        case OP_FSR: {
            std::vector<uint8_t> data; op_payload(o, data);
            ExactBuf b(data, fsr_bytes_sig(o.sig, o.dtype, o.n));
            if (o.dtype == DT_F32 && (o.gs & 2) && widest_bits(o.sig, o.dtype) == 32) return jls_wr_fsr_f32(wr, (uint16_t) o.sig, o.a, (const float *) b.p, (uint32_t) o.n);     // the typed convenience entry point
            return jls_wr_fsr(wr, (uint16_t) o.sig, o.a, b.p, (uint32_t) o.n);
        }
        case OP_OMIT: return jls_wr_fsr_omit_data(wr, (uint16_t) o.sig, (uint32_t) o.en);
        case OP_ANNO: {
            std::vector<uint8_t> data; op_payload(o, data);
            ExactBuf b(data, data.size());
            float y; memcpy(&y, &o.ybits, 4);
            return jls_wr_annotation(wr, (uint16_t) o.sig, o.a, y, (enum jls_annotation_type_e) o.at, (uint8_t) o.grp,
                                     (enum jls_storage_type_e) o.st, b.p, (uint32_t) data.size());
        }
        case OP_UTC: return jls_wr_utc(wr, (uint16_t) o.sig, o.a, o.b);
        case OP_USER: {
            std::vector<uint8_t> data; op_payload(o, data);
            if (o.en) return jls_wr_user_data(wr, (uint16_t) o.meta, (enum jls_storage_type_e) o.st, nullptr, (uint32_t) std::max<size_t>(1, data.size()));   // documented refusal: "data_size && !data"
            ExactBuf b(data, data.size());
            return jls_wr_user_data(wr, (uint16_t) o.meta, (enum jls_storage_type_e) o.st, b.p, (uint32_t) data.size());
        }
        case OP_FLUSH: return jls_wr_flush(wr);
        default: return 0;
    }
}

static void rec_begin(OpRec &r, int idx) {
    sim::set_cur_op(idx);
    r.stall_ns = sim::stalled_ns_of(sim::cur_task());
    r.t_invoke = sim::now_ns();
    r.seq_invoke = sim::event(EV_OP_INVOKE, 0, idx, 0);
}
static void rec_end(OpRec &r, int idx, int rc) {
    r.rc = rc; r.done = true;
    r.t_return = sim::now_ns();
    r.stall_ns = sim::stalled_ns_of(sim::cur_task()) - r.stall_ns;
    r.seq_return = sim::event(EV_OP_RETURN, 0, idx, rc);
    sim::set_cur_op(-1);
}

WriterResult write_sync(const Plan &p, const std::string &path, bool log_writes) {
    g_cur_plan = &p;
    WriterResult res; res.rec.resize(p.ops.size());
    apply_knobs(p);
    if (log_writes) { SFile *f = simfs::create(path); f->log_on = true; }
    sim::spawn([&]() {
        struct jls_wr_s *wr = nullptr;
        res.open_rc = jls_wr_open(&wr, path.c_str());
        if (res.open_rc) return;
        for (size_t i = 0; i < p.ops.size(); ++i) {
            const Op &o = p.ops[i];
            if (o.kind == OP_CLOSE) {
                rec_begin(res.rec[i], (int) i);
                res.close_rc = jls_wr_close(wr); wr = nullptr; res.closed = true;
                rec_end(res.rec[i], (int) i, res.close_rc);
                break;
            }
            rec_begin(res.rec[i], (int) i);
            int rc = do_sync_op(wr, o);
            rec_end(res.rec[i], (int) i, rc);
        }
        if (wr) { res.close_rc = jls_wr_close(wr); res.closed = true; }
    }, "syncwr", 0);
    res.status = sim::run();
    return res;
}

static int32_t do_twr_op(struct jls_twr_s *wr, const Op &o) {
    switch (o.kind) {
        case OP_SRC: {
            DefStrings d; def_strings(o, 5, d);
            struct jls_source_def_s s; memset(&s, 0, sizeof s);
            s.source_id = (uint16_t) o.src; s.name = d.c[0]; s.vendor = d.c[1]; s.model = d.c[2]; s.version = d.c[3]; s.serial_number = d.c[4];
            return jls_twr_source_def(wr, &s);
        }
        case OP_SIG: {
            DefStrings d; def_strings(o, 2, d);
            struct jls_signal_def_s s; memset(&s, 0, sizeof s);
            s.signal_id = (uint16_t) o.sig; s.source_id = (uint16_t) o.src; s.signal_type = (uint8_t) o.sigtype; s.data_type = o.dtx ? o.dtx : dt_code[o.dtype];
            s.sample_rate = o.p[0]; s.samples_per_data = o.p[1]; s.sample_decimate_factor = o.p[2]; s.entries_per_summary = o.p[3];
            s.summary_decimate_factor = o.p[4]; s.annotation_decimate_factor = o.p[5]; s.utc_decimate_factor = o.p[6];
            s.name = d.c[0]; s.units = d.c[1];
            return jls_twr_signal_def(wr, &s);
        }
        case OP_FSR: {
            std::vector<uint8_t> data; op_payload(o, data);
            ExactBuf b(data, fsr_bytes_sig(o.sig, o.dtype, o.n));
            if (o.dtype == DT_F32 && (o.gs & 2) && widest_bits(o.sig, o.dtype) == 32) return jls_twr_fsr_f32(wr, (uint16_t) o.sig, o.a, (const float *) b.p, (uint32_t) o.n);
            return jls_twr_fsr(wr, (uint16_t) o.sig, o.a, b.p, (uint32_t) o.n);
        }
        case OP_OMIT: return jls_twr_fsr_omit_data(wr, (uint16_t) o.sig, (uint32_t) o.en);
        case OP_ANNO: {
            std::vector<uint8_t> data; op_payload(o, data);
            ExactBuf b(data, data.size());
            float y; memcpy(&y, &o.ybits, 4);
            uint32_t dsz = (uint32_t) data.size();
            if ((o.st == 2 || o.st == 3) && (o.gs & 1)) dsz = 0;      // "data_size: the length of data for BINARY" - ignored for strings
            return jls_twr_annotation(wr, (uint16_t) o.sig, o.a, y, (enum jls_annotation_type_e) o.at, (uint8_t) o.grp,
                                      (enum jls_storage_type_e) o.st, b.p, dsz);
        }
        case OP_UTC: return jls_twr_utc(wr, (uint16_t) o.sig, o.a, o.b);
        case OP_USER: {
            if (o.en) return JLS_ERROR_PARAMETER_INVALID;     // NULL-data variant exists for the sync writer only (never generated here; keeps hand-edited plans meaningful)
            std::vector<uint8_t> data; op_payload(o, data);
            ExactBuf b(data, data.size());
            uint32_t dsz = (uint32_t) data.size();
            if ((o.st == 2 || o.st == 3) && (o.gs & 1)) dsz = 0;      // "Ignored for STRING and JSON"
            return jls_twr_user_data(wr, (uint16_t) o.meta, (enum jls_storage_type_e) o.st, b.p, dsz);
        }
        case OP_FLUSH: return jls_twr_flush(wr);
        case OP_FLAGS: return jls_twr_flags_set(wr, (uint32_t) o.en);
        default: return 0;
    }
}

WriterResult write_twr(const Plan &p, const std::string &path, bool log_writes) {
    g_cur_plan = &p;
    WriterResult res; res.rec.resize(p.ops.size());
    apply_knobs(p);
    if (log_writes) { SFile *f = simfs::create(path); f->log_on = true; }
    mon::begin_run(p);
    memset(mon_fsr_bits, 0, sizeof mon_fsr_bits);
    struct jls_twr_s *wr = nullptr;
    std::vector<int> prod_tasks;
    // leading definition ops are issued by producer 0 before the other producers start
    size_t n_lead = 0;
    while (n_lead < p.ops.size() && (p.ops[n_lead].kind == OP_SRC || p.ops[n_lead].kind == OP_SIG || p.ops[n_lead].kind == OP_FLAGS) && p.ops[n_lead].prod == 0) ++n_lead;
    auto run_ops = [&](int prod, size_t from) {
        for (size_t i = from; i < p.ops.size(); ++i) {
            const Op &o = p.ops[i];
            if (o.prod != prod || o.kind == OP_CLOSE) continue;
            rec_begin(res.rec[i], (int) i);
            int rc = do_twr_op(wr, o);
            rec_end(res.rec[i], (int) i, rc);
        }
    };
    sim::spawn([&]() {
        res.open_rc = jls_twr_open(&wr, path.c_str());
        if (res.open_rc) return;
        if (p.drop) jls_twr_flags_set(wr, JLS_TWR_FLAG_DROP_ON_OVERFLOW);
        for (size_t i = 0; i < n_lead; ++i) { rec_begin(res.rec[i], (int) i); int rc = do_twr_op(wr, p.ops[i]); rec_end(res.rec[i], (int) i, rc); }
        for (int k = 1; k < p.producers; ++k) prod_tasks.push_back(sim::spawn([&, k]() { run_ops(k, n_lead); }, "producer", k));
        run_ops(0, n_lead);
        for (int t : prod_tasks) sim::wait_task(t);
        int close_idx = -1;
        for (size_t i = 0; i < p.ops.size(); ++i) if (p.ops[i].kind == OP_CLOSE) close_idx = (int) i;
        if (close_idx >= 0) rec_begin(res.rec[close_idx], close_idx);
        res.close_rc = jls_twr_close(wr); res.closed = true;
        if (close_idx >= 0) rec_end(res.rec[close_idx], close_idx, res.close_rc);
    }, "producer", 0);
    res.status = sim::run();
    mon::end_run();
    return res;
}

// ------------------------------------------------------------------ C08 direct driver: two tasks on a bare jls_mrb_s
RunStatus mrb_driver(const Plan &p, std::vector<std::string> &errors, uint64_t *n_ok, uint64_t *n_fail, uint64_t *n_pop) {
    mon::begin_run(p);
    uint32_t cap = p.mrb_size ? p.mrb_size : 256;
    std::vector<uint8_t> mem(cap + 64, 0xC3);            // guard bytes after the buffer
    struct jls_mrb_s q;
    mon_jls_mrb_init(&q, mem.data(), cap);
    pthread_mutex_t mtx; sim_pthread_mutex_init(&mtx, nullptr);
    std::deque<uint64_t> seeds;                          // parallel to mon::refq
    auto pat = [](uint64_t gs, uint32_t i) { uint64_t x = gs + i * 0x9e3779b97f4a7c15ULL; return (uint8_t) (splitmix64(x) >> 24); };
    bool producer_done = false;
    sim::spawn([&]() {
        for (size_t i = 0; i < p.ops.size(); ++i) {
            const Op &o = p.ops[i]; if (o.kind != OP_USER) continue;
            sim::set_cur_op((int) i);
            sim_pthread_mutex_lock(&mtx);
            uint8_t *m = mon_jls_mrb_alloc(&q, (uint32_t) o.n);
            if (m) {
                ++*n_ok;
                if (m >= mem.data() && m + o.n <= mem.data() + cap) for (uint32_t k = 0; k < (uint32_t) o.n; ++k) m[k] = pat(o.gs, k);
                seeds.push_back(o.gs);
            } else ++*n_fail;
            sim_pthread_mutex_unlock(&mtx);
        }
        producer_done = true;
    }, "mrb_producer", 0);
    sim::spawn([&]() {
        for (size_t i = 0; i < p.ops.size(); ++i) {
            const Op &o = p.ops[i]; if (o.kind != OP_FLUSH) continue;
            sim::set_cur_op((int) i);
            sim_pthread_mutex_lock(&mtx);
            uint32_t sz = 0; uint8_t *m = nullptr;
            if (o.en) { m = mon_jls_mrb_peek(&q, &sz); if (m) { uint32_t sz2 = 0; uint8_t *m2 = mon_jls_mrb_pop(&q, &sz2); if (m2 != m || sz2 != sz) errors.push_back("pop_differs_from_peek|pop returned a different message than the preceding peek"); } }
            else m = mon_jls_mrb_pop(&q, &sz);
            if (m) {
                ++*n_pop;
                if (seeds.empty()) errors.push_back("phantom_message|message popped although none is outstanding");
                else {
                    uint64_t gs = seeds.front(); seeds.pop_front();
                    if (m >= mem.data() && m + sz <= mem.data() + cap) for (uint32_t k = 0; k < sz; ++k) if (m[k] != pat(gs, k)) { char b[160]; snprintf(b, sizeof b, "message_bytes_changed|popped message of %u bytes differs at byte %u from what the producer wrote", sz, k); errors.push_back(b); break; }
                }
            }
            sim_pthread_mutex_unlock(&mtx);
        }
    }, "mrb_consumer", 1);
    RunStatus st = sim::run();
    for (size_t k = cap; k < mem.size(); ++k) if (mem[k] != 0xC3) { errors.push_back("write_outside_buffer|guard byte after the queue buffer was overwritten"); break; }
    (void) producer_done;
    mon::end_run();
    return st;
}

void build_model(const Plan &p, const std::vector<OpRec> &rec, Model &m) {
    for (size_t i = 0; i < p.ops.size(); ++i) if (i < rec.size() && rec[i].done && rec[i].rc == 0) m.apply(p.ops[i]);
}

// ------------------------------------------------------------------ reader
namespace {
struct AnnoCtx { std::vector<uint8_t> *out; int64_t stop_after; int64_t n; };
int32_t anno_cbk(void *ud, const struct jls_annotation_s *a) {
    AnnoCtx *c = (AnnoCtx *) ud;
    ser_i64(*c->out, a->timestamp);
    uint8_t h[3] = {a->annotation_type, a->storage_type, a->group_id}; ser_bytes(*c->out, h, 3);
    uint32_t yb; memcpy(&yb, &a->y, 4); ser_u32(*c->out, yb); ser_u32(*c->out, a->data_size);
    ser_bytes(*c->out, a->data, a->data_size);
    ++c->n;
    return (c->stop_after > 0 && c->n >= c->stop_after) ? 1 : 0;
}
int32_t utc_cbk(void *ud, const struct jls_utc_summary_entry_s *u, uint32_t size) {
    AnnoCtx *c = (AnnoCtx *) ud;
    for (uint32_t i = 0; i < size; ++i) { ser_i64(*c->out, u[i].sample_id); ser_i64(*c->out, u[i].timestamp); ++c->n; }
    return (c->stop_after > 0 && c->n >= c->stop_after) ? 1 : 0;
}
int32_t user_cbk(void *ud, uint16_t meta, enum jls_storage_type_e st, uint8_t *data, uint32_t size) {
    AnnoCtx *c = (AnnoCtx *) ud;
    ser_u32(*c->out, meta); ser_u32(*c->out, (uint32_t) st); ser_u32(*c->out, size); ser_bytes(*c->out, data, size);
    ++c->n;
    return (c->stop_after > 0 && c->n >= c->stop_after) ? 1 : 0;
}
void ser_signal(std::vector<uint8_t> &o, const struct jls_signal_def_s &s) {
    ser_u32(o, s.signal_id); ser_u32(o, s.source_id); ser_u32(o, s.signal_type); ser_u32(o, s.data_type); ser_u32(o, s.sample_rate);
    ser_u32(o, s.samples_per_data); ser_u32(o, s.sample_decimate_factor); ser_u32(o, s.entries_per_summary); ser_u32(o, s.summary_decimate_factor);
    ser_u32(o, s.annotation_decimate_factor); ser_u32(o, s.utc_decimate_factor); ser_i64(o, s.sample_id_offset);
    ser_str(o, s.name); ser_str(o, s.units);
}
void ser_source(std::vector<uint8_t> &o, const struct jls_source_def_s &s) {
    ser_u32(o, s.source_id); ser_str(o, s.name); ser_str(o, s.vendor); ser_str(o, s.model); ser_str(o, s.version); ser_str(o, s.serial_number);
}

void do_read(struct jls_rd_s *rd, const Op &o, CallRec &c) {
    c.kind = o.kind; c.out.clear(); c.n_delivered = 0;
    switch (o.kind) {
        case RD_LEN: { int64_t n = -1; c.rc = jls_rd_fsr_length(rd, (uint16_t) o.sig, &n); if (!c.rc) ser_i64(c.out, n); break; }
        case RD_FSR: case RD_FSR_F32: {
            int bits = dt_bits[o.dtype];
            uint64_t nn = o.n > 0 ? (uint64_t) o.n : 0;      // a non-positive length still gets a valid (minimal) buffer
            int wbits = widest_bits(o.sig, o.dtype);
            size_t sz = wbits < 8 ? (size_t) (1 + (nn * wbits) / 8) : (size_t) (nn * wbits / 8);
            ExactBuf b(sz);
            memset(b.p, 0xEE, sz);
            if (o.kind == RD_FSR) c.rc = jls_rd_fsr(rd, (uint16_t) o.sig, o.a, b.p, o.n);
            else c.rc = jls_rd_fsr_f32(rd, (uint16_t) o.sig, o.a, (float *) b.p, o.n);
            if (!c.rc && o.n > 0) {
                size_t nb = fsr_bytes(o.dtype, o.n);
                ser_bytes(c.out, b.p, nb);
                uint64_t tb = (uint64_t) o.n * bits;
                if (tb & 7) c.out.back() &= (uint8_t) ((1u << (tb & 7)) - 1);
            }
            break;
        }
        case RD_STATS: {
            size_t cnt = (size_t) (o.n > 0 ? o.n : 0) * 4;
            ExactBuf b(cnt * sizeof(double));
            for (size_t i = 0; i < cnt; ++i) { double m = -12345.678; memcpy(b.p + i * 8, &m, 8); }
            c.rc = jls_rd_fsr_statistics(rd, (uint16_t) o.sig, o.a, o.b, (double *) b.p, o.n);
            if (!c.rc) ser_bytes(c.out, b.p, cnt * 8);
            break;
        }
        case RD_ANNO: { AnnoCtx x{&c.out, o.n, 0}; c.rc = jls_rd_annotations(rd, (uint16_t) o.sig, o.a, anno_cbk, &x); c.n_delivered = x.n; break; }
        case RD_UTC: { AnnoCtx x{&c.out, o.n, 0}; c.rc = jls_rd_utc(rd, (uint16_t) o.sig, o.a, utc_cbk, &x); c.n_delivered = x.n; break; }
        case RD_USER: { AnnoCtx x{&c.out, o.n, 0}; c.rc = jls_rd_user_data(rd, user_cbk, &x); c.n_delivered = x.n; break; }
        case RD_S2T: {
            int64_t t = 0; c.rc = jls_rd_sample_id_to_timestamp(rd, (uint16_t) o.sig, o.a, &t);
            if (!c.rc) { ser_i64(c.out, t); int64_t sb = 0; int32_t rb = jls_rd_timestamp_to_sample_id(rd, (uint16_t) o.sig, t, &sb); ser_i64(c.out, rb); ser_i64(c.out, sb); }
            break;
        }
        case RD_T2S: { int64_t s = 0; c.rc = jls_rd_timestamp_to_sample_id(rd, (uint16_t) o.sig, o.a, &s); if (!c.rc) ser_i64(c.out, s); break; }
        case RD_SIGNAL: { struct jls_signal_def_s s; memset(&s, 0, sizeof s); c.rc = jls_rd_signal(rd, (uint16_t) o.sig, &s); if (!c.rc) ser_signal(c.out, s); break; }
        case RD_SOURCES: {
            struct jls_source_def_s *s = nullptr; uint16_t n = 0; c.rc = jls_rd_sources(rd, &s, &n);
            if (!c.rc) { ser_u32(c.out, n); for (uint16_t i = 0; i < n; ++i) ser_source(c.out, s[i]); }
            break;
        }
        case RD_SIGNALS: {
            struct jls_signal_def_s *s = nullptr; uint16_t n = 0; c.rc = jls_rd_signals(rd, &s, &n);
            if (!c.rc) { ser_u32(c.out, n); for (uint16_t i = 0; i < n; ++i) ser_signal(c.out, s[i]); }
            break;
        }
        default: c.rc = 0; c.skipped = true; break;
    }
}
} // namespace

RunStatus read_dump(const Plan &p, const std::string &path, Dump &d, bool with_cold, bool retry_failed) {
    g_cur_plan = &p;
    d.retry.assign(p.reads.size(), CallRec()); for (auto &c : d.retry) c.skipped = true;
    apply_knobs(p);
    d.calls.assign(p.reads.size(), CallRec());
    d.cold.assign(p.reads.size(), CallRec());
    SFile *f = simfs::get(path);
    uint64_t openw_before = f ? f->n_open_w : 0;
    sim::spawn([&]() {
        struct jls_rd_s *rd = nullptr;
        sim::set_cur_op(-2);
        d.open_rc = jls_rd_open(&rd, path.c_str());
        sim::set_cur_op(-1);
        if (d.open_rc) return;
        for (size_t i = 0; i < p.reads.size(); ++i) {
            sim::set_cur_op(1000000 + (int) i);
            sim::event(EV_OP_INVOKE, 1, (int64_t) i, 0);
            do_read(rd, p.reads[i], d.calls[i]);
            sim::event(EV_OP_RETURN, 1, (int64_t) i, d.calls[i].rc);
            if (retry_failed && d.calls[i].rc != 0 && !d.calls[i].skipped) { d.retry[i].skipped = false; do_read(rd, p.reads[i], d.retry[i]); sim::event(EV_OP_RETURN, 2, (int64_t) i, d.retry[i].rc); }
        }
        sim::set_cur_op(-1);
        { struct jls_signal_def_s *sg = nullptr; uint16_t ns = 0; if (0 == jls_rd_signals(rd, &sg, &ns)) for (uint16_t i = 0; i < ns; ++i) d.sig_offset[sg[i].signal_id] = sg[i].sample_id_offset; }
        jls_rd_close(rd);
        if (with_cold) {
            for (size_t i = 0; i < p.reads.size(); ++i) {
                if (!p.reads[i].cold) { d.cold[i].skipped = true; continue; }
                struct jls_rd_s *r2 = nullptr;
                int rc = jls_rd_open(&r2, path.c_str());
                if (rc) { d.cold[i].rc = rc; continue; }
                sim::set_cur_op(2000000 + (int) i);
                do_read(r2, p.reads[i], d.cold[i]);
                sim::set_cur_op(-1);
                jls_rd_close(r2);
            }
        }
    }, "reader", 5);
    RunStatus st = sim::run();
    f = simfs::get(path);
    d.repaired = f && f->n_open_w != openw_before;
    return st;
}

RunStatus copy_file(const std::string &src, const std::string &dst, int *rc) {
    sim::spawn([&]() { *rc = jls_copy(src.c_str(), dst.c_str(), nullptr, nullptr, nullptr, nullptr); }, "copy", 6);
    return sim::run();
}

RunStatus raw_driver(const Plan &p, int n_ops, const std::string &path_r, const std::string &path_w, uint64_t *n_ok, uint64_t *n_err) {
    g_cur_plan = &p; apply_knobs(p);
    sim::spawn([&]() {
        Rng x = rng_derive(p.seed, "raw");
        struct jls_raw_s *rr = nullptr, *rw = nullptr;
        SFile *f = simfs::get(path_r); int64_t fsize = f ? (int64_t) f->bytes.size() : 0;
        std::vector<int64_t> told;       // offsets the library itself reported
        auto note = [&](int32_t rc) { if (rc) ++*n_err; else ++*n_ok; };
        auto an_offset = [&]() -> int64_t {
            int c = (int) x.below(8);
            if (c <= 2 && !told.empty()) return told[x.below(told.size())];
            if (c == 3) return 8 * x.range(0, std::max<int64_t>(1, fsize / 8));
            if (c == 4) return x.range(0, std::max<int64_t>(1, fsize + 64));
            if (c == 5) return 0;
            if (c == 6) return fsize + 8 * x.range(0, 100);
            return -x.range(1, 1000);
        };
        struct jls_chunk_header_s h; memset(&h, 0, sizeof h);
        for (int i = 0; i < n_ops; ++i) {
            int c = (int) x.below(24);
            sim::set_cur_op(3000000 + i);
            if (!rr && c < 16) { note(jls_raw_open(&rr, path_r.c_str(), "r")); if (!rr) continue; }
            if (!rw && c >= 16) { note(jls_raw_open(&rw, path_w.c_str(), x.chance(0.8) ? "w" : "a")); if (!rw) continue; }
            switch (c) {
                case 0: note(jls_raw_rd_header(rr, &h)); break;
                case 1: case 2: {      // payload of the current chunk into a buffer of exactly the size the call is told
                    int32_t rc = jls_raw_rd_header(rr, &h); uint32_t need = rc ? 64 : h.payload_length + 16;
                    uint32_t mx = x.chance(0.6) ? need : (uint32_t) x.range(0, 2 * (int64_t) std::min<uint32_t>(need, 1u << 20));
                    mx = std::min<uint32_t>(mx, 8u << 20); ExactBuf b(mx); note(jls_raw_rd_payload(rr, mx, b.p)); break; }
                case 3: { uint32_t mx = (uint32_t) x.range(0, 70000); ExactBuf b(mx); note(jls_raw_rd(rr, &h, mx, b.p)); break; }
                case 4: note(jls_raw_chunk_next(rr)); break;
                case 5: note(jls_raw_chunk_prev(rr)); break;
                case 6: note(jls_raw_item_next(rr)); break;
                case 7: note(jls_raw_item_prev(rr)); break;
                case 8: case 9: note(jls_raw_chunk_seek(rr, an_offset())); break;
                case 10: note(jls_raw_chunk_scan(rr)); break;
                case 11: { int64_t t = jls_raw_chunk_tell(rr); if (t > 0 && told.size() < 64) told.push_back(t); break; }
                case 12: note(jls_raw_seek_end(rr)); break;
                case 13: (void) jls_raw_version(rr); (void) jls_raw_backend(rr); break;
                case 14: note(jls_raw_flush(rr)); break;
                case 15: note(jls_raw_close(rr)); rr = nullptr; break;
                case 16: case 17: case 18: {     // whole chunk
                    struct jls_chunk_header_s w; memset(&w, 0, sizeof w); w.tag = (uint8_t) x.pick(std::vector<int>{0x40, 0x22, 0x32, 0x01, 0xff, 0x00, 0x7e}); w.chunk_meta = (uint16_t) x.range(0, 65535);
                    w.item_next = x.chance(0.2) ? (uint64_t) x.range(0, 100000) : 0; w.item_prev = x.chance(0.2) ? (uint64_t) x.range(0, 100000) : 0;
                    int pc = (int) x.below(6); w.payload_length = pc == 0 ? 0 : pc == 1 ? 28 : pc < 5 ? (uint32_t) x.range(1, 300) : (uint32_t) x.range(1, 70000);
                    ExactBuf b(w.payload_length); for (uint32_t k = 0; k < w.payload_length; ++k) b.p[k] = (uint8_t) (k * 7 + i);
                    note(jls_raw_wr(rw, &w, w.payload_length ? b.p : (x.chance(0.5) ? b.p : nullptr))); break; }
                case 19: {     // header and payload separately; the payload length sometimes disagrees with the header (must be refused, never trusted)
                    struct jls_chunk_header_s w; memset(&w, 0, sizeof w); w.tag = 0x40; w.payload_length = (uint32_t) x.range(0, 400);
                    int32_t rc = jls_raw_wr_header(rw, &w); note(rc);
                    uint32_t pl = x.chance(0.7) ? w.payload_length : (uint32_t) x.range(0, 800); ExactBuf b(pl); memset(b.p, 0x5a, pl ? pl : 1);
                    if (!rc) note(jls_raw_wr_payload(rw, pl, b.p)); break; }
                case 20: { int64_t t = jls_raw_chunk_tell(rw); if (t > 0 && told.size() < 64) told.push_back(t); note(jls_raw_chunk_seek(rw, x.chance(0.7) && !told.empty() ? told[x.below(told.size())] : an_offset())); break; }
                case 21: note(jls_raw_seek_end(rw)); break;
                case 22: note(jls_raw_flush(rw)); break;
                default: note(jls_raw_close(rw)); rw = nullptr; break;
            }
        }
        sim::set_cur_op(-1);
        if (rr) jls_raw_close(rr);
        if (rw) jls_raw_close(rw);
    }, "raw", 7);
    return sim::run();
}

} // namespace exec

uint64_t Dump::hash() const {
    uint64_t h = fnv_u64((uint64_t) (int64_t) open_rc, 0xcbf29ce484222325ULL);
    for (auto &c : calls) { h = fnv_u64((uint64_t) (int64_t) c.rc, h); h = fnv1a(c.out.data(), c.out.size(), h); }
    return h;
}
