#pragma once
#include "plan.h"
int shrink_main(Plan P, const char *cls, int tier);
