// Deterministic step budget and edge coverage from -fsanitize-coverage=trace-pc-guard
// (only library objects are instrumented).
#include "sim.h"
#include <cstdio>
namespace sim { void budget_exceeded(); }
namespace {
uint64_t counter = 0, limit = 0;
uint32_t n_guards = 0;
std::vector<uint8_t> seen;
uint64_t n_seen = 0;
}
namespace sim {
void budget_set(uint64_t edges) { limit = edges; }
uint64_t budget_used() { return counter; }
static uint64_t child_max = 0;      // runs evaluated in forked children report their own count
void note_child_edges(uint64_t n) { if (n > child_max) child_max = n; }
uint64_t edges_covered() { return n_seen > child_max ? n_seen : child_max; }
void budget_reset_counter() { counter = 0; }
}
extern "C" void __sanitizer_cov_trace_pc_guard_init(uint32_t *start, uint32_t *stop) {
    if (start == stop || *start) return;
    for (uint32_t *x = start; x < stop; ++x) *x = ++n_guards;
    seen.resize(n_guards + 1, 0);
}
extern "C" void __sanitizer_cov_trace_pc_guard(uint32_t *guard) {
    ++counter;
    uint32_t g = *guard;
    if (g >= seen.size()) { if (g < (1u << 22)) seen.resize(g + 1024, 0); else return; }
    if (!seen[g]) { seen[g] = 1; ++n_seen; }
    if (limit && counter > limit) { uint64_t c = counter; counter = 0; (void) c; sim::budget_exceeded(); }
}
namespace sim { uint32_t total_guards() { return n_guards; } }
