// Plans: explicit operation lists + knobs + faults. One seed -> one plan; a plan is also a replay file body.
#pragma once
#include "sim.h"

enum OpKind {
    OP_SRC = 0, OP_SIG, OP_FSR, OP_OMIT, OP_ANNO, OP_UTC, OP_USER, OP_FLUSH, OP_CLOSE,
    // reader program
    RD_LEN, RD_FSR, RD_FSR_F32, RD_STATS, RD_ANNO, RD_UTC, RD_USER, RD_S2T, RD_T2S, RD_SIGNAL, RD_SOURCES, RD_SIGNALS,
    // misc
    OP_COPY, OP_REOPEN, OP_FLAGS,
    OP_KIND_COUNT
};
extern const char *op_names[OP_KIND_COUNT];

// data types in a fixed order
enum DT { DT_U1 = 0, DT_U4, DT_I4, DT_U8, DT_I8, DT_U16, DT_I16, DT_U24, DT_I24, DT_U32, DT_I32, DT_U64, DT_I64, DT_F32, DT_F64, DT_COUNT };
extern const uint32_t dt_code[DT_COUNT];
extern const int dt_bits[DT_COUNT];
extern const char *dt_name[DT_COUNT];
int dt_from_code(uint32_t code);
static inline bool dt_is_float(int dt) { return dt == DT_F32 || dt == DT_F64; }
static inline bool dt_is_signed(int dt) { return dt == DT_I4 || dt == DT_I8 || dt == DT_I16 || dt == DT_I24 || dt == DT_I32 || dt == DT_I64; }
static inline bool dt_summary64(int dt) { return dt == DT_U32 || dt == DT_I32 || dt == DT_U64 || dt == DT_I64 || dt == DT_F64; }

enum Gen { G_RAMP = 0, G_CONST, G_ALT, G_RANDOM, G_DECADES, G_CBLOCKS, G_NANS, G_OFFSET /* large value + small jitter: counters, timestamps */,
           G_HDRLIKE /* bytes FFFFFFFF, 24 x 00, FFFFFFFF repeating: passes the chunk header CRC test */, G_COUNT };

struct Op {
    int kind = 0;
    int prod = 0;               // producer task index (engine D)
    int sig = 0, src = 0, dtype = DT_F32;
    int64_t a = 0, b = 0;       // fsr: a=sample id | anno: a=timestamp | utc: a=sample id, b=utc | reads: a=start/t, b=increment
    int64_t d = 0;              // fsr: delta to the next expected sample id (0 contiguous, >0 gap, <0 overlap); authoritative except for a signal's first write
    int64_t n = 0;              // fsr: samples | anno/user: payload bytes | reads: length / stop-after
    int g = 0; uint64_t gs = 0; // data generator kind and seed
    uint32_t p[7] = {0, 0, 0, 0, 0, 0, 0};   // sig: rate, spd, sdf, eps, sumdf, adf, udf
    int st = 1, at = 0, grp = 0; uint32_t ybits = 0; int meta = 0; int en = 0; int sigtype = 0;
    int sl[5] = {3, 3, 3, 3, 3};   // string lengths for defs (-1 = NULL pointer)
    int cold = 0;               // reads: 1 = execute on a fresh reader too
    uint32_t dtx = 0;           // sig (misuse programs): raw data_type code passed instead of dt_code[dtype] (0 = none)
    int fw = -1; int64_t fb = 0; // engine B focus: stop after this op's fw-th backend write (+ fb bytes of the next); -1 = none
    std::string to_text() const;
    bool from_text(const std::string &line);
};

struct Plan {
    uint64_t seed = 0;
    std::string prop;           // property id / profile
    // knobs
    uint32_t mrb_size = 0;      // 0 = shipped 64 MiB
    uint32_t buf_default = 0;   // 0 = shipped 1 MiB
    uint64_t fill_key = 1;
    int use_twr = 0, producers = 1, drop = 0;
    Policy pol;
    FaultCfg faults;
    uint64_t read_seed = 0;
    int variant_flags = 0;
    std::vector<uint32_t> decisions; bool has_decisions = false;
    int64_t focus_k = -1, focus_b = 0;   // engine B focus inside jls_wr_open / after the last op (absolute write index)
    std::vector<std::string> focus;      // engine C focus: explicit alterations
   // explicit schedule (replay / minimised)
    std::vector<Op> ops;        // writer program (definition, data, flush, close)
    std::vector<Op> reads;      // reader program
    std::string to_text() const;
    bool from_text(const std::string &text, std::string *err);
    void resolve();             // recompute absolute sample ids of fsr ops from the deltas
};

// sample data generation: raw little-endian bits of sample #local of an op (abs = absolute sample id)
uint64_t gen_sample_bits(int dtype, int g, uint64_t gs, int64_t abs_id, uint64_t local);
void gen_fill(int dtype, int g, uint64_t gs, int64_t abs_id0, uint64_t n, std::vector<uint8_t> &out);   // packed as JLS packs
void gen_bytes(uint64_t gs, size_t n, int storage_type, std::vector<uint8_t> &out);                     // anno/user payloads
std::string gen_string(uint64_t gs, int which, int len);
