// Independent JLS decoder: written from include/jls/format.h (+ README); shares no code with /repo.
// Where the specification is silent (serialisation of SOURCE_DEF / SIGNAL_DEF payloads) it follows src/writer.c.
#include "specdec.h"
#include <cstdarg>
#include <cstdio>
#include <cmath>
#include <algorithm>

namespace specdec {

void Decoded::err(const char *cls, const char *fmt, ...) {
    char b[400]; va_list ap; va_start(ap, fmt); vsnprintf(b, sizeof b, fmt, ap); va_end(ap);
    if (errors.size() < 16) errors.push_back(std::string(cls) + "|" + b);
}

uint32_t crc32c(const uint8_t *p, size_t n) {
    uint32_t crc = 0xFFFFFFFFu;
    for (size_t i = 0; i < n; ++i) {
        crc ^= p[i];
        for (int k = 0; k < 8; ++k) crc = (crc >> 1) ^ (0x82F63B78u & (0u - (crc & 1u)));
    }
    return crc ^ 0xFFFFFFFFu;
}

static const uint8_t IDENT[16] = {0x6a, 0x6c, 0x73, 0x66, 0x6d, 0x74, 0x0d, 0x0a, 0x20, 0x0a, 0x20, 0x1a, 0x20, 0x20, 0xb2, 0x1c};
static inline uint64_t rd64(const uint8_t *p) { uint64_t v; memcpy(&v, p, 8); return v; }
static inline uint32_t rd32(const uint8_t *p) { uint32_t v; memcpy(&v, p, 4); return v; }
static inline uint16_t rd16(const uint8_t *p) { uint16_t v; memcpy(&v, p, 2); return v; }

static bool tag_known(uint8_t t) {
    if (t == 0x01 || t == 0x02 || t == 0x40 || t == 0xff) return true;
    if ((t & 0xe0) == 0x20 && (t & 7) <= 4) return true;
    return false;
}
static inline bool is_track(uint8_t t) { return (t & 0xe0) == 0x20 && t != 0xff; }
static inline int track_type(uint8_t t) { return (t >> 3) & 3; }
static inline int track_chunk(uint8_t t) { return t & 7; }   // 0 def 1 head 2 data 3 index 4 summary

static bool read_str(const uint8_t *p, size_t n, size_t &pos, std::string &out) {
    size_t s = pos;
    while (pos < n && p[pos] != 0) ++pos;
    if (pos >= n) return false;
    out.assign((const char *) p + s, pos - s);
    ++pos;
    if (pos < n && p[pos] == 0x1f) ++pos; else return false;
    return true;
}

// repaired files: follow the links from the first chunk; chunks of the kind that are not linked (leftovers of the interrupted writer) are tolerated
static void check_list_linked(Decoded &d, std::vector<size_t> &lst, const char *what) {
    if (lst.empty()) return;
    std::vector<size_t> linked; size_t cur = lst[0]; uint64_t prev_off = 0; size_t guard = 0;
    while (guard++ <= d.chunks.size()) {
        const Chunk &c = d.chunks[cur];
        if (c.prev != prev_off) { d.err("list_prev", "%s: chunk @%llu item_prev=%llu expected %llu", what, (unsigned long long) c.off, (unsigned long long) c.prev, (unsigned long long) prev_off); break; }
        linked.push_back(cur);
        if (!c.next) break;
        auto it = d.by_off.find(c.next);
        if (it == d.by_off.end() || c.next <= c.off) { d.err("list_next", "%s: chunk @%llu item_next=%llu does not lead to a later chunk", what, (unsigned long long) c.off, (unsigned long long) c.next); break; }
        if (std::find(lst.begin(), lst.end(), it->second) == lst.end()) { d.err("list_next", "%s: chunk @%llu item_next=%llu leads to a chunk of another list", what, (unsigned long long) c.off, (unsigned long long) c.next); break; }
        prev_off = c.off; cur = it->second;
    }
    lst = linked;
}

static void check_list(Decoded &d, std::vector<size_t> &lst, const char *what) {
    if (d.repaired_mode) { check_list_linked(d, lst, what); return; }
    for (size_t i = 0; i < lst.size(); ++i) {
        const Chunk &c = d.chunks[lst[i]];
        uint64_t exp_prev = i ? d.chunks[lst[i - 1]].off : 0, exp_next = (i + 1 < lst.size()) ? d.chunks[lst[i + 1]].off : 0;
        if (c.prev != exp_prev) d.err("list_prev", "%s: chunk @%llu item_prev=%llu expected %llu", what, (unsigned long long) c.off, (unsigned long long) c.prev, (unsigned long long) exp_prev);
        if (c.next != exp_next) d.err("list_next", "%s: chunk @%llu item_next=%llu expected %llu", what, (unsigned long long) c.off, (unsigned long long) c.next, (unsigned long long) exp_next);
    }
}

void decode(const std::vector<uint8_t> &f, Decoded &d, bool expect_closed) {
    const uint8_t *b = f.data(); size_t n = f.size();
    if (n < 32) { d.err("file_header", "file shorter than the file header (%zu bytes)", n); return; }
    d.header_ok = true;
    if (memcmp(b, IDENT, 16)) { d.err("file_header", "identification mismatch"); d.header_ok = false; }
    d.hdr_length = rd64(b + 16); d.version = rd32(b + 24);
    if (crc32c(b, 28) != rd32(b + 28)) { d.err("file_header", "header crc mismatch"); d.header_ok = false; }
    if ((d.version >> 24) != 1) d.err("file_header", "unexpected major version %u", d.version >> 24);
    if (expect_closed && d.hdr_length != n) d.err("file_length", "header length %llu != file size %zu", (unsigned long long) d.hdr_length, n);
    // ---- forward walk
    uint64_t off = 32; uint32_t prev_plen = 0; int n_end = 0;
    while (off < n) {
        if (off + 32 > n) { d.err("walk_truncated", "chunk header @%llu runs past the end of the file (%zu)", (unsigned long long) off, n); break; }
        Chunk c; c.off = off;
        c.next = rd64(b + off); c.prev = rd64(b + off + 8); c.tag = b[off + 16]; c.rsv = b[off + 17]; c.meta = rd16(b + off + 18);
        c.plen = rd32(b + off + 20); c.pprev = rd32(b + off + 24); c.crc = rd32(b + off + 28);
        c.hdr_ok = crc32c(b + off, 28) == c.crc;
        if (!c.hdr_ok) { d.err("header_crc", "chunk header @%llu crc mismatch", (unsigned long long) off); break; }
        if (off & 7) d.err("alignment", "chunk @%llu not 8-byte aligned", (unsigned long long) off);
        if (c.rsv) d.err("reserved", "chunk @%llu reserved byte %u", (unsigned long long) off, c.rsv);
        if (!tag_known(c.tag)) d.err("tag", "chunk @%llu unknown tag 0x%02x", (unsigned long long) off, c.tag);
        if (c.pprev != prev_plen) d.err("payload_prev_length", "chunk @%llu payload_prev_length=%u, previous payload length=%u", (unsigned long long) off, c.pprev, prev_plen);
        c.payload_off = off + 32;
        uint64_t disk = 0;
        if (c.plen) { uint32_t pad = (8 - ((c.plen + 4) & 7)) & 7; disk = (uint64_t) c.plen + pad + 4; }
        c.end = off + 32 + disk;
        if (c.end > n) { d.err("walk_truncated", "chunk @%llu (payload %u) runs past the end of the file (%zu)", (unsigned long long) off, c.plen, n); break; }
        if (c.plen) {
            uint32_t stored = rd32(b + c.end - 4);
            c.payload_ok = crc32c(b + c.payload_off, c.plen) == stored;
            if (!c.payload_ok) d.err("payload_crc", "chunk @%llu payload crc mismatch", (unsigned long long) off);
            for (uint64_t p = c.payload_off + c.plen; p < c.end - 4; ++p) if (b[p]) { d.err("pad", "chunk @%llu pad byte non-zero", (unsigned long long) off); break; }
        } else c.payload_ok = true;
        if (is_track(c.tag) && track_chunk(c.tag) >= 2 && c.plen >= 16 && c.payload_ok) { c.ts = (int64_t) rd64(b + c.payload_off); c.entries = rd32(b + c.payload_off + 8); c.entry_bits = rd16(b + c.payload_off + 12); }
        if (c.tag == 0xff) { ++n_end; if (c.plen) d.err("end_chunk", "END chunk has a payload"); }
        d.by_off[off] = d.chunks.size();
        d.chunks.push_back(c);
        prev_plen = c.plen; off = c.end;
    }
    d.closed = n_end == 1 && !d.chunks.empty() && d.chunks.back().tag == 0xff && d.chunks.back().end == n;
    if (expect_closed) {
        if (n_end != 1) d.err("end_chunk", "%d END chunks", n_end);
        else if (!d.closed) d.err("end_chunk", "END chunk is not the last chunk / file has trailing bytes");
    }
    // ---- backward walk using payload_prev_length
    if (!d.chunks.empty() && d.errors.empty()) {
        uint64_t pos = d.chunks.back().off; size_t idx = d.chunks.size() - 1;
        while (idx > 0) {
            uint32_t pp = d.chunks[idx].pprev; uint64_t disk = pp ? (uint64_t) pp + ((8 - ((pp + 4) & 7)) & 7) + 4 : 0;
            if (pos < 32 + 32 + disk) { d.err("walk_back", "backward walk leaves the file at chunk @%llu", (unsigned long long) pos); break; }
            pos -= 32 + disk; --idx;
            if (pos != d.chunks[idx].off) { d.err("walk_back", "backward walk reaches %llu, expected chunk @%llu", (unsigned long long) pos, (unsigned long long) d.chunks[idx].off); break; }
        }
        if (idx == 0 && pos != 32) d.err("walk_back", "backward walk ends at %llu, not at 32", (unsigned long long) pos);
    }
    // ---- lists and definitions
    std::vector<size_t> src_list, sig_list, user_list;
    for (size_t i = 0; i < d.chunks.size(); ++i) {
        const Chunk &c = d.chunks[i];
        const uint8_t *p = b + c.payload_off;
        if (c.tag == 0x01) {
            src_list.push_back(i);
            DSource s; s.id = c.meta; size_t pos = 64; bool ok = c.plen >= 64 && c.payload_ok;
            for (size_t k = 0; ok && k < 64; ++k) if (p[k]) { d.err("source_def", "source %d reserved bytes non-zero", s.id); break; }
            for (int k = 0; k < 5 && ok; ++k) ok = read_str(p, c.plen, pos, s.s[k]);
            if (!ok) d.err("source_def", "source %d payload malformed", s.id); else if (pos != c.plen) d.err("source_def", "source %d payload has %zu trailing bytes", s.id, (size_t) c.plen - pos);
            if (s.id > 255) d.err("source_def", "source id %d out of range", s.id);
            if (d.sources.count(s.id)) d.err("source_def", "source %d defined twice", s.id);
            d.sources[s.id] = s;
        } else if (c.tag == 0x02) {
            sig_list.push_back(i);
            DSignal s; s.id = c.meta; s.def_chunk = i; memset(s.head_offsets, 0, sizeof s.head_offsets);
            bool ok = c.plen >= 128 && c.payload_ok;
            if (ok) {
                s.src = rd16(p); s.sigtype = p[2]; s.dtype_code = rd32(p + 4); s.rate = rd32(p + 8); s.spd = rd32(p + 12); s.sdf = rd32(p + 16);
                s.eps = rd32(p + 20); s.sumdf = rd32(p + 24); s.adf = rd32(p + 28); s.udf = rd32(p + 32);
                if (p[3]) d.err("signal_def", "signal %d reserved byte non-zero", s.id);
                for (size_t k = 36; k < 128; ++k) if (p[k]) { d.err("signal_def", "signal %d reserved bytes non-zero", s.id); break; }
                size_t pos = 128; ok = read_str(p, c.plen, pos, s.name) && read_str(p, c.plen, pos, s.units);
                if (ok && pos != c.plen) d.err("signal_def", "signal %d payload has trailing bytes", s.id);
            }
            if (!ok) d.err("signal_def", "signal %d payload malformed", s.id);
            if (s.id > 255) d.err("signal_def", "signal id %d out of range", s.id);
            if (d.signals.count(s.id)) d.err("signal_def", "signal %d defined twice", s.id);
            d.signals[s.id] = s;
        } else if (c.tag == 0x40) {
            user_list.push_back(i);
        } else if (is_track(c.tag)) {
            int sig = c.meta & 0x0fff, lvl = c.meta >> 12, tt = track_type(c.tag), tc = track_chunk(c.tag);
            auto it = d.signals.find(sig);
            if (it == d.signals.end()) { d.err("track_meta", "chunk @%llu tag 0x%02x names undefined signal %d", (unsigned long long) c.off, c.tag, sig); continue; }
            DSignal &s = it->second;
            if (sig & 0x0f00) d.err("track_meta", "chunk @%llu reserved meta bits set", (unsigned long long) c.off);
            if (tc == 0) { sig_list.push_back(i); if (c.plen) d.err("track_def", "track def with payload"); if (lvl) d.err("track_meta", "track def level %d", lvl); s.has_track_def[tt] = true; }
            else if (tc == 1) {
                sig_list.push_back(i);
                if (c.plen != 128) d.err("track_head", "signal %d track %d head payload %u != 128", sig, tt, c.plen);
                else if (c.payload_ok) { for (int k = 0; k < 16; ++k) s.head_offsets[tt][k] = rd64(p + 8 * k); }
                if (s.has_head[tt]) d.err("track_head", "signal %d track %d has two heads", sig, tt);
                s.has_head[tt] = true; s.head_chunk[tt] = i;
            } else if (tc == 2) { if (lvl) d.err("track_meta", "data chunk @%llu level %d", (unsigned long long) c.off, lvl); s.data_chunks[tt].push_back(i); }
            else if (tc == 3) { if (lvl < 1) d.err("track_meta", "index chunk @%llu level 0", (unsigned long long) c.off); s.levels[tt][lvl & 15].index_chunks.push_back(i);
                if (d.repaired_mode) { /* checked below for linked chunks only */ }
                else if (i + 1 >= d.chunks.size() || d.chunks[i + 1].tag != (uint8_t) (c.tag + 1) || d.chunks[i + 1].meta != c.meta)
                    d.err("index_summary_pair", "index chunk @%llu (signal %d level %d) is not immediately followed by its summary", (unsigned long long) c.off, sig, lvl);
                else if (d.chunks[i + 1].plen >= 16 && d.chunks[i + 1].ts != c.ts) d.err("index_summary_pair", "index @%llu timestamp %lld != summary timestamp %lld", (unsigned long long) c.off, (long long) c.ts, (long long) d.chunks[i + 1].ts);
            } else if (tc == 4) { s.levels[tt][lvl & 15].summary_chunks.push_back(i);
                if (!d.repaired_mode && (i == 0 || d.chunks[i - 1].tag != (uint8_t) (c.tag - 1) || d.chunks[i - 1].meta != c.meta)) d.err("index_summary_pair", "summary chunk @%llu is not preceded by its index", (unsigned long long) c.off);
            }
        }
    }
    check_list(d, src_list, "source list");
    check_list(d, sig_list, "signal list");
    check_list(d, user_list, "user data list");
    if (!user_list.empty()) {
        for (size_t k = 0; k < user_list.size(); ++k) {
            const Chunk &c = d.chunks[user_list[k]];
            uint8_t st = (uint8_t) (c.meta >> 12);
            if (k == 0) continue;      // first user-data chunk is the library's own empty marker
            DUser u; u.meta = c.meta & 0x0fff; u.st = st; u.data.assign(b + c.payload_off, b + c.payload_off + c.plen);
            d.users.push_back(u);
            if (st < 1 || st > 3) d.err("user_data", "user data @%llu storage type %u", (unsigned long long) c.off, st);
        }
    }
    // ---- per signal / track checks
    for (auto &kv : d.signals) {
        DSignal &s = kv.second;
        int bits = (s.dtype_code >> 8) & 0xff;
        if (!d.sources.count(s.src)) d.err("signal_def", "signal %d names undefined source %d", s.id, s.src);
        if (s.sigtype == 0 && s.id != 0) {
            // relations the format relies on (observed here; C16 itself is not claimed)
            if (s.sdf < 10 || s.spd < 10 || s.eps < 10 || s.sumdf < 10) d.err("def_relation", "signal %d minimums: spd=%u sdf=%u eps=%u sumdf=%u", s.id, s.spd, s.sdf, s.eps, s.sumdf);
            else {
                if (((uint64_t) s.sdf * bits) % 8) d.err("def_relation", "signal %d: summary entry is not a whole number of bytes", s.id);
                if (s.spd % s.sdf) d.err("def_relation", "signal %d: spd %u not a multiple of sdf %u", s.id, s.spd, s.sdf);
                else if (s.eps % (s.spd / s.sdf)) d.err("def_relation", "signal %d: eps %u not a multiple of entries per block %u", s.id, s.eps, s.spd / s.sdf);
                if (s.eps % s.sumdf) d.err("def_relation", "signal %d: eps %u not a multiple of sumdf %u", s.id, s.eps, s.sumdf);
            }
        }
        for (int tt = 0; tt < 4; ++tt) {
            bool expected = s.sigtype == 0 ? (tt == 0 || tt == 2 || tt == 3) : (tt == 1 || tt == 2);
            if (expected && (!s.has_track_def[tt] || !s.has_head[tt]) && d.closed && !d.repaired_mode) d.err("track_def", "signal %d track %d: definition/head missing", s.id, tt);
            char what[64];
            if (d.repaired_mode) {
                // only chunks reachable from the head table count; leftovers of the interrupted writer are tolerated
                auto from_head = [&](std::vector<size_t> &lst, uint64_t head_off) {
                    std::vector<size_t> keep; bool on = false;
                    for (size_t ci : lst) { if (d.chunks[ci].off == head_off) on = true; if (on) keep.push_back(ci); }
                    lst = head_off ? keep : std::vector<size_t>();
                };
                from_head(s.data_chunks[tt], s.has_head[tt] ? s.head_offsets[tt][0] : 0);
                for (int L = 1; L < 16; ++L) {
                    from_head(s.levels[tt][L].index_chunks, s.has_head[tt] ? s.head_offsets[tt][L] : 0);
                    // follow the index chain (file order is not enough: an unlinked index may sit in between)
                    std::vector<size_t> &ix = s.levels[tt][L].index_chunks, linked;
                    if (!ix.empty()) { size_t cur = ix[0]; for (size_t guard = 0; guard <= d.chunks.size(); ++guard) { linked.push_back(cur); uint64_t nx = d.chunks[cur].next; auto it2 = d.by_off.find(nx); if (!nx || it2 == d.by_off.end() || std::find(ix.begin(), ix.end(), it2->second) == ix.end() || it2->second <= cur) break; cur = it2->second; } ix = linked; }
                    std::vector<size_t> &sm = s.levels[tt][L].summary_chunks; sm.clear();
                    for (size_t ic : ix) if (ic + 1 < d.chunks.size() && d.chunks[ic + 1].tag == (uint8_t) (d.chunks[ic].tag + 1) && d.chunks[ic + 1].meta == d.chunks[ic].meta) sm.push_back(ic + 1);
                }
            }
            snprintf(what, sizeof what, "signal %d track %d data list", s.id, tt); check_list(d, s.data_chunks[tt], what);
            // head table
            if (s.has_head[tt]) {
                uint64_t exp0 = s.data_chunks[tt].empty() ? 0 : d.chunks[s.data_chunks[tt][0]].off;
                if (s.head_offsets[tt][0] != exp0 && d.closed) d.err("track_head", "signal %d track %d head[0]=%llu expected %llu", s.id, tt, (unsigned long long) s.head_offsets[tt][0], (unsigned long long) exp0);
                for (int L = 1; L < 16; ++L) {
                    uint64_t e = s.levels[tt][L].index_chunks.empty() ? 0 : d.chunks[s.levels[tt][L].index_chunks[0]].off;
                    if (s.head_offsets[tt][L] != e && d.closed) d.err("track_head", "signal %d track %d head[%d]=%llu expected %llu", s.id, tt, L, (unsigned long long) s.head_offsets[tt][L], (unsigned long long) e);
                }
            }
            for (int L = 1; L < 16; ++L) {
                DTrackLevel &lv = s.levels[tt][L];
                snprintf(what, sizeof what, "signal %d track %d level %d index list", s.id, tt, L); check_list(d, lv.index_chunks, what);
                snprintf(what, sizeof what, "signal %d track %d level %d summary list", s.id, tt, L); check_list(d, lv.summary_chunks, what);
                if (d.repaired_mode) {      // linked index chunks must be followed by their summary
                    for (size_t ic : lv.index_chunks)
                        if (ic + 1 >= d.chunks.size() || d.chunks[ic + 1].tag != (uint8_t) (d.chunks[ic].tag + 1) || d.chunks[ic + 1].meta != d.chunks[ic].meta)
                            d.err("index_summary_pair", "index chunk @%llu (signal %d level %d) is not immediately followed by its summary", (unsigned long long) d.chunks[ic].off, s.id, L);
                }
                for (size_t ic : lv.index_chunks) {
                    const Chunk &c = d.chunks[ic]; const uint8_t *p = b + c.payload_off;
                    if (!c.payload_ok || c.plen < 16) { d.err("index_payload", "index @%llu payload too short", (unsigned long long) c.off); continue; }
                    if (tt == 0) {
                        if (c.entry_bits != 64 || c.plen != 16 + 8ull * c.entries) { d.err("index_payload", "fsr index @%llu: entry_bits=%u entries=%u payload=%u", (unsigned long long) c.off, c.entry_bits, c.entries, c.plen); continue; }
                        uint64_t step = s.spd;
                        if (L >= 2) { step = (uint64_t) s.eps * s.sdf; for (int k = 2; k < L; ++k) step *= s.sumdf; }
                        for (uint32_t k = 0; k < c.entries; ++k) {
                            uint64_t o = rd64(p + 16 + 8 * k); int64_t want_ts = c.ts + (int64_t) (k * step);
                            if (o == 0) { if (L != 1) d.err("index_entry", "fsr index @%llu level %d entry %u is 0", (unsigned long long) c.off, L, k); continue; }
                            auto t = d.by_off.find(o);
                            if (t == d.by_off.end()) { d.err("index_entry", "fsr index @%llu entry %u -> %llu is not a chunk", (unsigned long long) c.off, k, (unsigned long long) o); continue; }
                            const Chunk &tc = d.chunks[t->second];
                            uint8_t want_tag = L == 1 ? 0x22 : 0x23; uint16_t want_meta = (uint16_t) (s.id | ((L - 1) << 12));
                            if (tc.tag != want_tag || tc.meta != want_meta || tc.ts != want_ts)
                                d.err("index_entry", "fsr index @%llu level %d entry %u -> chunk @%llu tag 0x%02x meta 0x%04x ts %lld; expected tag 0x%02x meta 0x%04x ts %lld", (unsigned long long) c.off, L, k,
                                      (unsigned long long) o, tc.tag, tc.meta, (long long) tc.ts, want_tag, want_meta, (long long) want_ts);
                        }
                    } else {
                        if (c.entry_bits != 128 || c.plen != 16 + 16ull * c.entries) { d.err("index_payload", "ts index @%llu: entry_bits=%u entries=%u payload=%u", (unsigned long long) c.off, c.entry_bits, c.entries, c.plen); continue; }
                        for (uint32_t k = 0; k < c.entries; ++k) {
                            int64_t ets = (int64_t) rd64(p + 16 + 16 * k); uint64_t o = rd64(p + 24 + 16 * k);
                            auto t = d.by_off.find(o);
                            if (t == d.by_off.end()) { d.err("index_entry", "ts index @%llu entry %u -> %llu is not a chunk", (unsigned long long) c.off, k, (unsigned long long) o); continue; }
                            const Chunk &tc = d.chunks[t->second];
                            uint8_t want_tag = (uint8_t) (0x20 | (tt << 3) | (L == 1 ? 2 : 3)); uint16_t want_meta = (uint16_t) (s.id | ((L - 1) << 12));
                            if (tc.tag != want_tag || tc.meta != want_meta || tc.ts != ets)
                                d.err("index_entry", "ts index @%llu level %d entry %u (t=%lld) -> chunk @%llu tag 0x%02x meta 0x%04x ts %lld", (unsigned long long) c.off, L, k, (long long) ets, (unsigned long long) o, tc.tag, tc.meta, (long long) tc.ts);
                        }
                    }
                }
                for (size_t sc : lv.summary_chunks) {
                    const Chunk &c = d.chunks[sc];
                    if (!c.payload_ok || c.plen < 16) { d.err("summary_payload", "summary @%llu payload too short", (unsigned long long) c.off); continue; }
                    if (tt == 0) {
                        bool wide = false; uint32_t code = s.dtype_code & 0xffff;
                        if (code == dt_code[DT_U32] || code == dt_code[DT_I32] || code == dt_code[DT_U64] || code == dt_code[DT_I64] || code == dt_code[DT_F64]) wide = true;
                        uint32_t eb = wide ? 256 : 128;
                        if (c.entry_bits != eb || c.plen != 16 + (uint64_t) c.entries * eb / 8) d.err("summary_payload", "fsr summary @%llu: entry_bits=%u entries=%u payload=%u (expected %u-bit entries)", (unsigned long long) c.off, c.entry_bits, c.entries, c.plen, eb);
                    } else if (c.entry_bits != 128 || c.plen != 16 + 16ull * c.entries) d.err("summary_payload", "ts summary @%llu: entry_bits=%u entries=%u payload=%u", (unsigned long long) c.off, c.entry_bits, c.entries, c.plen);
                }
            }
            // data chunk payload sizes
            for (size_t dc : s.data_chunks[tt]) {
                const Chunk &c = d.chunks[dc];
                if (!c.payload_ok) continue;
                if (tt == 0) {
                    if (c.plen < 16 || c.entry_bits != bits || c.plen != 16 + ((uint64_t) c.entries * bits + 7) / 8) d.err("data_payload", "fsr data @%llu: entry_bits=%u entries=%u payload=%u (type %d bits)", (unsigned long long) c.off, c.entry_bits, c.entries, c.plen, bits);
                    if (c.entries == 0 || c.entries > s.spd) d.err("data_payload", "fsr data @%llu: %u entries, block size %u", (unsigned long long) c.off, c.entries, s.spd);
                } else if (tt == 3) {
                    if (c.plen != 24 || c.entries != 1 || c.entry_bits != 64) d.err("data_payload", "utc data @%llu malformed", (unsigned long long) c.off);
                } else if (tt == 2) {
                    if (c.plen < 28) d.err("data_payload", "annotation data @%llu too short", (unsigned long long) c.off);
                }
            }
        }
    }
}

int max_fsr_level(const Decoded &d) {
    int m = 0;
    for (auto &kv : d.signals) for (int L = 1; L < 16; ++L) if (!kv.second.levels[0][L].index_chunks.empty()) m = std::max(m, L);
    return m;
}

void regions(const Decoded &d, std::vector<Region> &out) {
    out.push_back(Region{0, 32, 0, 0});
    for (size_t i = 0; i < d.chunks.size(); ++i) {
        const Chunk &c = d.chunks[i];
        out.push_back(Region{c.off, c.off + 32, 1, i});
        if (c.plen) out.push_back(Region{c.payload_off, c.end, 2, i});
    }
}

// ---------------------------------------------------------------------------------------------- content
static void cerr(std::vector<std::string> &e, const char *cls, const char *fmt, ...) __attribute__((format(printf, 3, 4)));
static void cerr(std::vector<std::string> &e, const char *cls, const char *fmt, ...) {
    char b[400]; va_list ap; va_start(ap, fmt); vsnprintf(b, sizeof b, fmt, ap); va_end(ap);
    if (e.size() < 16) e.push_back(std::string(cls) + "|" + b);
}

void compare_with_model(const std::vector<uint8_t> &f, const Decoded &d, const Model &m, const ContentOpts &o, std::vector<std::string> &E) {
    const uint8_t *b = f.data();
    // ---- definitions
    if (d.sources.size() != m.sources.size()) cerr(E, "content_sources", "%zu sources in file, %zu written", d.sources.size(), m.sources.size());
    for (auto &kv : m.sources) {
        auto it = d.sources.find(kv.first);
        if (it == d.sources.end()) { cerr(E, "content_sources", "source %d missing", kv.first); continue; }
        for (int k = 0; k < 5; ++k) if (it->second.s[k] != kv.second.s[k]) cerr(E, "content_sources", "source %d string %d differs", kv.first, k);
    }
    if (d.signals.size() != m.signals.size()) cerr(E, "content_signals", "%zu signals in file, %zu written", d.signals.size(), m.signals.size());
    for (auto &kv : m.signals) {
        const MSignal &ms = kv.second;
        auto it = d.signals.find(kv.first);
        if (it == d.signals.end()) { cerr(E, "content_signals", "signal %d missing", kv.first); continue; }
        const DSignal &ds = it->second;
        if (ds.src != ms.src || ds.sigtype != ms.sigtype || ds.dtype_code != dt_code[ms.dtype] || ds.rate != (ms.sigtype ? 0 : ms.p[0]) || ds.name != ms.name || ds.units != ms.units)
            cerr(E, "content_signals", "signal %d definition differs", kv.first);
        int bits = dt_bits[ms.dtype];
        // ---- samples from DATA chunks
        if (ms.sigtype == 0) {
            int64_t covered_to = 0;     // in 0-based samples
            std::vector<uint8_t> have((size_t) ms.length(), 0);
            for (size_t dc : ds.data_chunks[0]) {
                const Chunk &c = d.chunks[dc];
                if (!c.payload_ok || c.plen < 16) continue;
                int64_t rel = c.ts - ms.first_id;
                if (!ms.has_data || rel < 0 || rel + (int64_t) c.entries > ms.length()) { cerr(E, "content_samples", "signal %d data chunk @%llu covers [%lld,+%u) outside the written span (first id %lld, %lld samples)", ms.id, (unsigned long long) c.off, (long long) c.ts, c.entries, (long long) ms.first_id, (long long) ms.length()); continue; }
                std::vector<uint8_t> exp; ms.window(rel, c.entries, exp);
                const uint8_t *p = b + c.payload_off + 16; size_t nb = (size_t) (((uint64_t) c.entries * bits + 7) / 8);
                bool same = exp.size() == nb;
                if (same) {
                    if (((uint64_t) c.entries * bits) & 7) { same = memcmp(exp.data(), p, nb - 1) == 0 && ((exp[nb - 1] ^ p[nb - 1]) & ((1u << (((uint64_t) c.entries * bits) & 7)) - 1)) == 0; }
                    else same = memcmp(exp.data(), p, nb) == 0;
                }
                if (!same) {
                    // NaN fill of float gaps may differ in payload bits
                    bool ok = dt_is_float(ms.dtype) && !ms.gaps.empty();
                    if (ok) for (uint32_t i = 0; i < c.entries && ok; ++i) {
                        uint64_t e = bits_get(exp.data(), i, bits), g = bits_get(p, i, bits);
                        if (e != g) ok = ms.in_gap(rel + i) && std::isnan((double) raw_to_value(ms.dtype, g));
                    }
                    if (!ok) cerr(E, "content_samples", "signal %d data chunk @%llu [%lld,+%u) differs from the written samples", ms.id, (unsigned long long) c.off, (long long) c.ts, c.entries);
                }
                for (uint32_t i = 0; i < c.entries; ++i) have[(size_t) (rel + i)] = 1;
                covered_to = std::max<int64_t>(covered_to, rel + c.entries);
            }
            // omitted blocks must be announced by a zero level-1 index entry
            if (ds.spd) for (size_t ic : ds.levels[0][1].index_chunks) {
                const Chunk &c = d.chunks[ic]; if (!c.payload_ok || c.plen < 16) continue;
                // summary entries of this chunk tell how many samples the omitted blocks hold
                size_t sumc = (d.by_off.count(c.end) ? d.by_off.at(c.end) : (size_t) -1);
                uint64_t summarized = (sumc != (size_t) -1) ? (uint64_t) d.chunks[sumc].entries * ds.sdf : 0;
                for (uint32_t k = 0; k < c.entries; ++k) {
                    if (rd64(b + c.payload_off + 16 + 8 * k)) continue;
                    int64_t rel = c.ts + (int64_t) k * ds.spd - ms.first_id;
                    uint64_t blk_start = (uint64_t) k * ds.spd, blk_n = summarized > blk_start ? std::min<uint64_t>(ds.spd, summarized - blk_start) : 0;
                    for (uint64_t i = 0; i < blk_n && rel + (int64_t) i < ms.length(); ++i) if (rel + (int64_t) i >= 0) have[(size_t) (rel + i)] = 2;
                }
            }
            if (o.samples_must_be_complete) {
                int64_t missing = -1; for (int64_t i = 0; i < ms.length(); ++i) if (!have[(size_t) i]) { missing = i; break; }
                if (missing >= 0) cerr(E, "content_samples_missing", "signal %d (%s): sample %lld of %lld is neither in a data chunk nor in an omitted block covered by a summary", ms.id, dt_name[ms.dtype], (long long) missing, (long long) ms.length());
            }
            // ---- stored summaries recomputed from the written samples
            bool can_sum = o.check_summaries && ms.dtype != DT_U24 && ms.dtype != DT_I24 && ds.sdf >= 1;
            if (can_sum) for (int L = 1; L < 16; ++L) {
                uint64_t step = ds.sdf; for (int k = 1; k < L; ++k) step *= ds.sumdf;
                bool wide = dt_summary64(ms.dtype);
                long double eps = wide ? ldexpl(1, -53) : ldexpl(1, -24);
                for (size_t sc : ds.levels[0][L].summary_chunks) {
                    const Chunk &c = d.chunks[sc]; if (!c.payload_ok || c.plen < 16) continue;
                    uint32_t eb = wide ? 32 : 16; if (c.plen != 16 + (uint64_t) c.entries * eb) continue;
                    for (uint32_t k = 0; k < c.entries; ++k) {
                        double e4[4]; const uint8_t *p = b + c.payload_off + 16 + (uint64_t) k * eb;
                        if (wide) memcpy(e4, p, 32); else { float f4[4]; memcpy(f4, p, 16); for (int q = 0; q < 4; ++q) e4[q] = f4[q]; }
                        int64_t rel = c.ts + (int64_t) ((uint64_t) k * step) - ms.first_id;
                        if (rel < 0 || rel + (int64_t) step > ms.length()) { cerr(E, "content_summary", "signal %d level %d summary @%llu entry %u covers samples outside the written span", ms.id, L, (unsigned long long) c.off, k); break; }
                        // exact statistics over finite samples
                        long double sum = 0, mn = INFINITY, mx = -INFINITY; int64_t cnt = 0;
                        for (uint64_t i = 0; i < step; ++i) { long double v = ms.value(rel + (int64_t) i); if (!std::isfinite((double) v)) continue; sum += v; ++cnt; if (v < mn) mn = v; if (v > mx) mx = v; }
                        if (cnt == 0) { if (!std::isnan(e4[0])) cerr(E, "content_summary", "signal %d level %d entry %u: all samples non-finite but mean=%g", ms.id, L, k, e4[0]); continue; }
                        bool partial = cnt != (int64_t) step;
                        long double mean = sum / cnt, ss = 0;
                        for (uint64_t i = 0; i < step; ++i) { long double v = ms.value(rel + (int64_t) i); if (!std::isfinite((double) v)) continue; ss += (v - mean) * (v - mean); }
                        long double sd_pop = sqrtl(ss / cnt), sd_smp = cnt > 1 ? sqrtl(ss / (cnt - 1)) : 0;
                        long double mag = std::max(fabsl(mn), fabsl(mx));
                        long double tol = (16 * eps + (long double) step * ldexpl(1, -52)) * mag + 1e-300L;
                        auto st = [&](long double v) { return wide ? (long double) (double) v : (long double) (float) v; };
                        bool bad = false;
                        if (st(mn) != (long double) e4[2] || st(mx) != (long double) e4[3]) bad = true;
                        // upper levels average entry means: with non-finite samples inside, entries are weighted equally -> only bounded
                        if (!partial || L == 1) { if (fabsl((long double) e4[0] - mean) > tol) bad = true; }
                        else if ((long double) e4[0] < st(mn) - tol || (long double) e4[0] > st(mx) + tol) bad = true;
                        long double lo = sqrtl(0.9L) * std::min(sd_pop, sd_smp) * (1 - 16 * eps) - tol, hi = std::max(sd_pop, sd_smp) * (1 + 16 * eps) + tol;
                        if (!partial && ((long double) e4[1] < lo || (long double) e4[1] > hi)) bad = true;
                        if (bad) { cerr(E, "content_summary", "signal %d (%s) level %d summary @%llu entry %u [%lld,+%llu): stored mean=%.17g std=%.17g min=%.17g max=%.17g; written samples give mean=%.17Lg std=%.17Lg min=%.17Lg max=%.17Lg",
                                        ms.id, dt_name[ms.dtype], L, (unsigned long long) c.off, k, (long long) rel, (unsigned long long) step, e4[0], e4[1], e4[2], e4[3], mean, sd_pop, mn, mx); break; }
                    }
                }
            }
        }
        // ---- annotations
        {
            const std::vector<size_t> &lst = ds.data_chunks[2];
            if (lst.size() != ms.annos.size()) cerr(E, "content_annotations", "signal %d: %zu annotation chunks, %zu written", ms.id, lst.size(), ms.annos.size());
            for (size_t k = 0; k < lst.size() && k < ms.annos.size(); ++k) {
                const Chunk &c = d.chunks[lst[k]]; const uint8_t *p = b + c.payload_off; const MAnno &a = ms.annos[k];
                if (!c.payload_ok || c.plen < 28) continue;
                int64_t t = (int64_t) rd64(p); uint32_t ysz[2]; memcpy(ysz, p + 20, 8);
                bool ok = t == a.t && p[16] == a.at && p[17] == a.st && p[18] == a.grp && ysz[0] == a.ybits && ysz[1] == a.data.size() && c.plen >= 28 + a.data.size() && memcmp(p + 28, a.data.data(), a.data.size()) == 0;
                if (rd32(p + 8) != 1) ok = false;
                if (!ok) { cerr(E, "content_annotations", "signal %d annotation %zu @%llu differs from what was written (t=%lld vs %lld)", ms.id, k, (unsigned long long) c.off, (long long) t, (long long) a.t); break; }
            }
        }
        // ---- utc
        if (ms.sigtype == 0) {
            const std::vector<size_t> &lst = ds.data_chunks[3];
            if (lst.size() != ms.utcs.size()) cerr(E, "content_utc", "signal %d: %zu utc chunks, %zu written", ms.id, lst.size(), ms.utcs.size());
            for (size_t k = 0; k < lst.size() && k < ms.utcs.size(); ++k) {
                const Chunk &c = d.chunks[lst[k]]; const uint8_t *p = b + c.payload_off;
                if (!c.payload_ok || c.plen != 24) continue;
                if ((int64_t) rd64(p) != ms.utcs[k].id || (int64_t) rd64(p + 16) != ms.utcs[k].utc) { cerr(E, "content_utc", "signal %d utc entry %zu differs", ms.id, k); break; }
            }
            // level-1 summaries list every entry again
            size_t k = 0;
            for (size_t sc : ds.levels[3][1].summary_chunks) {
                const Chunk &c = d.chunks[sc]; const uint8_t *p = b + c.payload_off;
                if (!c.payload_ok || c.plen != 16 + 16ull * c.entries) continue;
                for (uint32_t i = 0; i < c.entries; ++i, ++k) {
                    if (k >= ms.utcs.size() || (int64_t) rd64(p + 16 + 16 * i) != ms.utcs[k].id || (int64_t) rd64(p + 24 + 16 * i) != ms.utcs[k].utc) { cerr(E, "content_utc", "signal %d utc summary entry %zu differs", ms.id, k); k = (size_t) -2; break; }
                }
                if (k == (size_t) -2) break;
            }
            if (k != (size_t) -2 && d.closed && k != ms.utcs.size()) cerr(E, "content_utc", "signal %d: level-1 utc summaries hold %zu entries, %zu written", ms.id, k, ms.utcs.size());
        }
    }
    // ---- user data
    if (d.users.size() != m.users.size()) cerr(E, "content_user_data", "%zu user data chunks, %zu written", d.users.size(), m.users.size());
    for (size_t k = 0; k < d.users.size() && k < m.users.size(); ++k)
        if (d.users[k].meta != m.users[k].meta || d.users[k].st != m.users[k].st || d.users[k].data != m.users[k].data) { cerr(E, "content_user_data", "user data item %zu differs", k); break; }
}
} // namespace specdec
