#include "specdec.h"
