// Reach probes from the library's own log lines (INFO level compiled in).
#include "sim.h"
extern "C" {
typedef void (*jls_log_cbk)(const char *msg);
void jls_log_register(jls_log_cbk handler);
}
namespace probes {
uint64_t count[16];
const char *names[16] = {"repair_signal", "descend", "restart", "fsr_dup", "fsr_skip", "buffer_overflow",
                         "internal_memory_error", "not_properly_closed", "crc_mismatch", "hdr_crc_error",
                         "flush_timed_out", "drop", "took_ms", "mrb_too_big", "other_error", "total"};
static const char *pats[15] = {"repair signal", "descend signal", "restart signal", "fsr dup", " skip: in=", "buffer overflow",
                               "internal memory error", "not properly closed", "crc32 mismatch", "crc error",
                               "flush timed out", " drop ", " took ", "jls_mrb_alloc too big", nullptr};
static void handler(const char *msg) {
    ++count[15];
    for (int i = 0; i < 14; ++i) if (strstr(msg, pats[i])) { ++count[i]; return; }
    if (msg[0] == 'E') ++count[14];
}
void reset() { memset(count, 0, sizeof(count)); }
void install() { jls_log_register(handler); }
}
