#include "gen.h"
#include <algorithm>
#include <set>
#include <cmath>

NormDef approx_norm(int dtype, const uint32_t p[7]) {
    static const uint32_t dflt[7][4] = {{65536, 1024, 1280, 20}, {65536, 1024, 1280, 20}, {32768, 1024, 640, 20}, {16384, 256, 1280, 20},
                                        {0, 0, 0, 0}, {8192, 128, 640, 20}, {8192, 128, 640, 20}};
    int bits = dt_bits[dtype];
    int row = bits == 1 ? 0 : bits == 4 ? 1 : bits == 8 ? 2 : bits == 16 ? 3 : bits == 24 ? 4 : bits == 32 ? 5 : 6;
    uint64_t spd = p[1] ? p[1] : dflt[row][0], sdf = p[2] ? p[2] : dflt[row][1], eps = p[3] ? p[3] : dflt[row][2], sumdf = p[4] ? p[4] : dflt[row][3];
    uint64_t mult = 256 / bits;
    sdf = std::max<uint64_t>(sdf, 10); sdf = ((sdf + mult - 1) / mult) * mult;
    spd = std::max<uint64_t>(spd, 10); eps = std::max<uint64_t>(eps, 10); sumdf = std::max<uint64_t>(sumdf, 10);
    eps = ((eps + sumdf - 1) / sumdf) * sumdf;
    spd = ((spd + sdf - 1) / sdf) * sdf;
    uint64_t epd = spd / sdf;
    while (epd > 1 && eps % epd) --epd;
    spd = sdf * epd;
    return NormDef{(uint32_t) spd, (uint32_t) sdf, (uint32_t) eps, (uint32_t) sumdf};
}

Profile profile_for(const std::string &prop, int tier) {
    Profile f; f.prop = prop;
    int64_t big = tier ? 2000000 : 60000;
    if (prop == "C01") { f.reads_fsr = true; f.max_samples = big; f.twr_share = 0.15; f.max_signals = 3; }
    else if (prop == "C02") { f.reads_stats = true; f.max_samples = big; f.max_signals = 2;
        f.types = {DT_U1, DT_U4, DT_I4, DT_U8, DT_I8, DT_U16, DT_I16, DT_U32, DT_I32, DT_F32, DT_F64, DT_U64, DT_I64}; }
    else if (prop == "C03" || prop == "C19" || prop == "C04") {
        f.reads_fsr = f.reads_stats = f.reads_anno = f.reads_utc = f.reads_user = f.reads_defs = true;
        f.annos = f.utcs = f.users = true; f.omit_ops = false; f.cblocks = false; f.no_omission = true; f.small_defs_only = true;
        f.max_samples = tier ? 40000 : 6000; f.max_signals = 3; f.max_annos = 30; f.max_utcs = 30; f.max_users = 4; f.max_fsr_ops = 16;
        if (prop == "C04") { f.max_samples = tier ? 6000 : 2500; f.max_annos = 12; f.max_utcs = 12; }
    }
    else if (prop == "C05" || prop == "C14") {
        f.reads_defs = true; f.annos = f.utcs = f.users = true; f.omit_ops = true; f.cblocks = true; f.gaps = true; f.flushes = true;
        f.max_samples = tier ? 400000 : 30000; f.max_signals = 4; f.max_annos = 250; f.max_utcs = 250; f.max_users = 6; f.twr_share = 0.25; f.vsr_sigs = true;
    }
    else if (prop == "C06" || prop == "C07" || prop == "C08") {
        f.engine_d = true; f.annos = f.utcs = f.users = true; f.omit_ops = true; f.flushes = true; f.small_defs_only = true;
        f.max_samples = 3000; f.max_signals = 3; f.max_annos = 8; f.max_utcs = 8; f.max_users = 4; f.max_fsr_ops = 25; f.twr_share = 1.0;
        f.reads_defs = true;
    }
    else if (prop == "C09") { f.gaps = f.overlaps = true; f.reads_fsr = true; f.reads_stats = true; f.max_samples = tier ? 300000 : 40000; f.max_signals = 2; f.max_fsr_ops = 14; }
    else if (prop == "C11") { f.deep_anno_chance = tier ? 0.015 : 0; f.annos = true; f.reads_anno = true; f.max_samples = 200; f.max_annos = tier ? 1400 : 400; f.max_payload = tier ? 70000 : 3000; f.vsr_sigs = true; f.max_signals = 3; }
    else if (prop == "C12") { f.utcs = true; f.reads_utc = true; f.reads_conv = true; f.max_samples = 400; f.max_utcs = tier ? 1300 : 1100; f.max_signals = 2; }
    else if (prop == "C13") { f.users = true; f.reads_user = true; f.reads_defs = true; f.max_samples = 300; f.max_users = 12; f.max_payload = tier ? 3200000 : 200000; f.max_signals = 6; f.max_sources = 4; f.wide_ids = true; f.vsr_sigs = true; }
    else if (prop == "C15") { f.omit_ops = true; f.cblocks = true; f.reads_fsr = true; f.reads_stats = true; f.max_samples = tier ? 400000 : 50000; f.max_signals = 2; }
    else if (prop == "C17") {
        f.reads_fsr = f.reads_stats = f.reads_anno = f.reads_utc = f.reads_user = f.reads_defs = true;
        f.annos = f.utcs = f.users = true; f.omit_ops = false; f.cblocks = false; f.no_omission = true; f.gaps = true;
        f.max_samples = tier ? 200000 : 20000; f.max_signals = 3; f.max_annos = 120; f.max_utcs = 120; f.max_users = 5; f.max_payload = 5000;
    }
    else if (prop == "C10") { f.misuse = true; f.annos = f.utcs = f.users = true; f.reads_fsr = f.reads_stats = f.reads_anno = f.reads_utc = f.reads_user = f.reads_defs = f.reads_conv = true;
        f.max_samples = 5000; f.max_annos = 10; f.max_utcs = 10; f.max_users = 4; f.wide_ids = true; f.vsr_sigs = true; f.twr_share = 0.3; }
    if (prop == "C17" || prop == "C03" || prop == "C19") { f.omit_ops = true; f.cblocks = true; f.no_omission = false; }     // omitted blocks are part of these properties' domains
    return f;
}

namespace {
struct SigPlan {
    int sig, src, dtype, sigtype; uint32_t p[7]; NormDef nd;
    int64_t first_id, total; int prod;
    std::vector<Op> data;     // fsr/omit ops in order
    std::vector<Op> ts;       // anno/utc ops in order
};

uint32_t pick_param(Rng &r, int which, const Profile &pf, uint32_t sdf_hint) {
    // which: 1 spd, 2 sdf, 3 eps, 4 sumdf
    int c = (int) r.below(pf.small_defs_only ? 4 : 7);
    switch (which) {
        case 2: switch (c) { case 0: case 1: return 10; case 2: return (uint32_t) r.range(10, 64); case 3: return (uint32_t) r.range(1, 40);
                             case 4: return 0; case 5: return (uint32_t) r.range(64, 600); default: return 0; }
        case 1: switch (c) { case 0: return 10; case 1: return sdf_hint; case 2: return sdf_hint * (uint32_t) r.range(1, 6); case 3: return (uint32_t) r.range(1, 300);
                             case 4: return 0; case 5: return (uint32_t) r.range(300, 70000); default: return sdf_hint * (uint32_t) r.range(2, 40); }
        case 3: switch (c) { case 0: case 1: return 10; case 2: return (uint32_t) r.range(10, 40); case 3: return (uint32_t) r.range(1, 25);
                             case 4: return 0; case 5: return (uint32_t) r.range(40, 400); default: return 20; }
        default: switch (c) { case 0: case 1: case 2: return 10; case 3: return (uint32_t) r.range(1, 16); case 4: return 0; case 5: return (uint32_t) r.range(11, 30); default: return 10; }
    }
}

int64_t pick_total(Rng &r, const NormDef &nd, int64_t max_samples) {
    int64_t l1 = (int64_t) nd.eps * nd.sdf;             // samples per level-1 summary chunk
    int64_t l2 = l1 * nd.sumdf;                         // samples per level-2 entry group ... per level-2 summary chunk = l1 * eps? keep simple
    int64_t cands[10] = {(int64_t) r.range(1, nd.spd), (int64_t) nd.spd * r.range(1, 4) + r.range(-2, 2), (int64_t) nd.sdf * r.range(1, 12) + r.range(-3, 3),
                         l1 + r.range(-nd.sdf, nd.sdf), l1 * r.range(1, 3) + r.range(-20, 20), l1 * r.range(2, 12) + r.range(0, nd.spd),
                         l2 + r.range(-40, 40), l2 * r.range(1, 3) + r.range(0, l1), l2 * nd.sumdf + r.range(0, l1), r.range(1, 3000)};
    for (int tries = 0; tries < 20; ++tries) {
        int64_t v = cands[r.below(10)];
        if (v >= 1 && v <= max_samples) return v;
    }
    return r.range(1, std::min<int64_t>(max_samples, 2000));
}

int pick_gen(Rng &r, int dtype, const Profile &pf) {
    if (pf.no_omission && dt_bits[dtype] <= 8) { static const int g[] = {G_RAMP, G_RANDOM, G_ALT}; return g[r.below(3)]; }     // never a constant block
    if (pf.cblocks && r.chance(0.6)) return G_CBLOCKS;
    if (dt_is_float(dtype)) { static const int g[] = {G_RAMP, G_RANDOM, G_DECADES, G_RANDOM, G_ALT, G_CONST, G_OFFSET}; return g[r.below(7)]; }
    if (dt_bits[dtype] >= 16 && r.chance(0.14)) return G_OFFSET;
    if (!pf.no_omission && r.chance(0.07)) return G_HDRLIKE;      // integer samples whose bytes look like an (empty, tag 0) chunk header to the CRC
    static const int g[] = {G_RAMP, G_RANDOM, G_RANDOM, G_ALT, G_CONST, G_CBLOCKS};
    return g[r.below(6)];
}
}

static Plan gen_mrb_driver_plan(const Profile &pf, uint64_t seed) {
    Plan P; P.seed = seed; P.prop = pf.prop; P.use_twr = 2; P.producers = 2;
    Rng r = rng_derive(seed, "mrbdriver");
    static const uint32_t caps[] = {16, 17, 24, 31, 32, 48, 64, 100, 128, 255, 256, 1000, 4096};
    P.mrb_size = r.chance(0.01) ? (64u << 20) : caps[r.below(13)];
    P.pol.kind = (int) r.below(4); static const double ps[] = {0.02, 0.1, 0.5}; P.pol.p = ps[r.below(3)]; P.pol.d = (int) r.range(1, 4); P.pol.q = (int) r.range(1, 12); P.pol.est_len = 600;
    int n = (int) r.range(4, 120);
    uint32_t cap = P.mrb_size > 100000 ? 5000 : P.mrb_size;
    for (int i = 0; i < n; ++i) {
        if (r.chance(0.55)) {
            Op o; o.kind = OP_USER; o.prod = 0; o.gs = r.next();
            int c = (int) r.below(8);
            o.n = c == 0 ? 0 : c == 1 ? 1 : c == 2 ? (int64_t) cap - r.range(0, 12) : c == 3 ? (int64_t) cap + r.range(1, 3) : c == 4 ? r.range(0, cap / 2) : c == 5 ? r.range(0, cap) : r.range(0, std::max<int64_t>(1, cap / 4));
            if (o.n < 0) o.n = 0;
            P.ops.push_back(o);
        } else { Op o; o.kind = OP_FLUSH; o.prod = 1; o.en = r.chance(0.7); P.ops.push_back(o); }
    }
    return P;
}

Plan gen_plan(const Profile &pf, uint64_t seed) {
    if (pf.prop == "C08" && (seed & 1)) return gen_mrb_driver_plan(pf, seed);
    Plan P; P.seed = seed; P.prop = pf.prop;
    Rng r = rng_derive(seed, "plan");
    // ---- knobs
    static const uint32_t bufs[] = {64, 200, 1024, 4096, 65536, 0};
    P.buf_default = bufs[r.below(6)];
    P.fill_key = 1;
    P.read_seed = r.next();
    P.use_twr = pf.engine_d || r.chance(pf.twr_share);
    if (P.use_twr) {
        if (pf.engine_d) {
            static const uint32_t caps[] = {96, 128, 160, 200, 256, 333, 512, 1024, 2048, 8192};
            P.mrb_size = r.chance(0.9) ? caps[r.below(10)] : (1u << 20);
            P.producers = r.chance(0.4) ? 2 : 1;
            P.drop = r.chance(0.5);
        } else { P.mrb_size = r.chance(0.5) ? (uint32_t) r.range(2048, 65536) : (1u << 20); P.producers = 1; }
        P.pol.kind = (int) r.below(4);
        static const double ps[] = {0.02, 0.1, 0.5}; P.pol.p = ps[r.below(3)]; P.pol.d = (int) r.range(1, 4); P.pol.q = (int) r.range(1, 12); P.pol.est_len = 4000;
        if (pf.engine_d) {
            if (r.chance(0.2)) P.faults.spurious_wake = 0.05;
            if (r.chance(0.2)) P.faults.eintr = 0.05;
            if (r.chance(0.2)) P.faults.spurious_full = 0.02;
            int lat = (int) r.below(10); P.faults.latency = lat < 5 ? 0 : lat < 7 ? 1 : lat < 9 ? 2 : 3;
            if (r.chance(0.3)) { int n = (int) r.range(1, 3); for (int i = 0; i < n; ++i) {
                static const int64_t durs[] = {1000000, 50000000, 900000000LL, 4900000000LL, 5200000000LL, 12000000000LL, 21000000000LL, 30000000000LL};
                P.faults.stalls.push_back(FaultCfg::Stall{r.chance(0.6) ? 9 : (int) r.below(P.producers), (uint32_t) r.range(1, 400), durs[r.below(8)]}); } }
            if (r.chance(0.1)) { int n = (int) r.range(1, 2); for (int i = 0; i < n; ++i) {
                static const int64_t js[] = {1000000, -1000000, 7000000000LL, -7000000000LL, 60000000000LL, -60000000000LL, 600000000000LL, -600000000000LL};
                P.faults.jumps.push_back(FaultCfg::Jump{(uint32_t) r.range(1, 1500), js[r.below(8)]}); } }
        }
    }
    // ---- sources
    int nsrc = (int) r.range(1, pf.max_sources);
    std::vector<int> srcs;
    for (int i = 0; i < nsrc; ++i) { int id; do { id = pf.wide_ids ? (int) r.range(1, 255) : (int) r.range(1, 8); } while (std::find(srcs.begin(), srcs.end(), id) != srcs.end()); srcs.push_back(id); }
    // ---- signals
    int nsig = (int) r.range(pf.min_signals, pf.max_signals);
    const bool deep_annos = pf.deep_anno_chance > 0 && r.chance(pf.deep_anno_chance);
    std::vector<SigPlan> sigs;
    std::vector<int> types = pf.types;
    if (types.empty()) for (int i = 0; i < DT_COUNT; ++i) types.push_back(i);
    int64_t budget = pf.max_samples;     // total samples budget across signals keeps runs short
    for (int i = 0; i < nsig; ++i) {
        SigPlan s; memset(s.p, 0, sizeof s.p);
        do { s.sig = pf.wide_ids ? (int) r.range(1, 255) : (int) r.range(1, 12); } while (std::any_of(sigs.begin(), sigs.end(), [&](const SigPlan &o) { return o.sig == s.sig; }));
        s.src = srcs[r.below(srcs.size())];
        // the built-in source 0 is a legal parent too (own PRNG stream: the other draws of existing seeds stay as they were)
        { Rng r0 = rng_derive(seed ^ (uint64_t) (i + 1) * 0x9e3779b97f4a7c15ULL, "src0"); if (r0.chance(0.12)) s.src = 0; }
        s.dtype = types[r.below(types.size())];
        s.sigtype = (pf.vsr_sigs && r.chance(0.2)) ? 1 : 0;
        s.prod = (P.producers > 1) ? (int) r.below(P.producers) : 0;
        s.p[0] = s.sigtype ? 0 : (r.chance(0.1) ? 1000000000u : r.chance(0.5) ? (uint32_t) r.range(1, 2000000) : 1000u * (uint32_t) r.range(1, 1000));
        s.p[2] = pick_param(r, 2, pf, 10);
        NormDef tmp = approx_norm(s.dtype, s.p);
        s.p[1] = pick_param(r, 1, pf, tmp.sdf);
        s.p[3] = pick_param(r, 3, pf, 0);
        s.p[4] = pick_param(r, 4, pf, 0);
        static const uint32_t dfs[] = {0, 2, 3, 10, 100, 1};
        s.p[5] = dfs[r.below(6)]; s.p[6] = dfs[r.below(6)];
        if (pf.prop == "C11" && s.p[5] == 100 && r.chance(0.8)) s.p[5] = dfs[1 + r.below(3)];
        if (deep_annos && sigs.empty()) s.p[5] = 2;
        if (pf.prop == "C12" && s.p[6] == 100 && r.chance(0.8)) s.p[6] = dfs[1 + r.below(3)];
        s.nd = approx_norm(s.dtype, s.p);
        static const int64_t firsts[] = {0, 0, 0, 5, 1000, -7, -100000, 1LL << 40, -(1LL << 40)};
        s.first_id = firsts[r.below(9)];
        s.total = s.sigtype ? 0 : pick_total(r, s.nd, std::max<int64_t>(1, std::min(pf.max_samples, budget)));
        if (pf.engine_d) s.total = std::min<int64_t>(s.total, r.range(20, pf.max_samples));
        if (pf.subbyte_aligned && dt_bits[s.dtype] < 8 && !s.sigtype) { int64_t q = 8 / dt_bits[s.dtype]; s.total = std::max<int64_t>(q, (s.total / q) * q); }
        budget = std::max<int64_t>(budget - s.total / 2, pf.max_samples / 8);
        sigs.push_back(s);
    }
    // ---- per-signal data ops
    uint32_t msg_cap = P.mrb_size ? P.mrb_size : (1u << 26);
    for (auto &s : sigs) {
        if (s.sigtype) continue;
        int bits = dt_bits[s.dtype];
        int64_t pos = s.first_id, end = s.first_id + s.total;
        int g = pick_gen(r, s.dtype, pf); uint64_t gs = r.next();
        int nops = 0;
        bool empty_signal = r.chance(0.04) && !pf.engine_d;
        while (pos < end && !empty_signal) {
            int64_t left = end - pos, n;
            if (pf.engine_d) {
                // choose message sizes against the queue capacity
                int64_t max_payload = (int64_t) msg_cap - 40 - 12;
                int64_t max_n = std::max<int64_t>(1, max_payload * 8 / bits);
                int c = (int) r.below(8);
                n = c < 3 ? r.range(1, std::max<int64_t>(1, max_n / 4)) : c < 5 ? r.range(1, max_n) : c < 7 ? std::max<int64_t>(1, max_n - r.range(0, 16 * 8 / bits + 1))
                          : max_n + r.range(1, 64);
                n = std::min<int64_t>(n, 20000);
            } else {
                int c = (int) r.below(9);
                int64_t blk = s.nd.spd;
                n = c == 0 ? 1 : c == 1 ? 7 : c == 2 ? blk - 1 : c == 3 ? blk : c == 4 ? blk + 1 : c == 5 ? 3 * blk : c == 6 ? r.range(1, 100) : c == 7 ? r.range(1, 2 * blk) : (int64_t) s.nd.sdf * r.range(1, 9);
                if (nops >= pf.max_fsr_ops - 1) n = left;
                else if (left > (int64_t) (pf.max_fsr_ops - nops) * n) n = std::max(n, left / (pf.max_fsr_ops - nops) + r.range(0, 17));
            }
            n = std::max<int64_t>(1, std::min(n, left));
            if (pf.subbyte_aligned && bits < 8) { int64_t q = 8 / bits; n = ((n + q - 1) / q) * q; if (n > left) n = left; }
            Op o; o.kind = OP_FSR; o.sig = s.sig; o.dtype = s.dtype; o.prod = s.prod; o.a = pos; o.n = n;
            if (r.chance(0.15)) { g = pick_gen(r, s.dtype, pf); }
            o.g = g; o.gs = (g == G_CBLOCKS) ? gs : r.next();
            // gaps / overlaps
            if (nops > 0 && pf.gaps && !(pf.no_omission && bits <= 8) && r.chance(0.2)) {
                int c = (int) r.below(6);
                int64_t fillbuf = 32768LL * 8 / bits;
                int64_t gap = c == 0 ? 1 : c == 1 ? r.range(1, 20) : c == 2 ? s.nd.spd + r.range(-1, 1) : c == 3 ? r.range(1, 5 * (int64_t) s.nd.spd) : c == 4 ? fillbuf + r.range(-2, 40) : r.range(1, 3 * (int64_t) s.nd.sdf);
                gap = std::max<int64_t>(1, std::min<int64_t>(gap, pf.max_samples));
                if (pf.subbyte_aligned && bits < 8) { int64_t q = 8 / bits; gap = ((gap + q - 1) / q) * q; }
                o.a = pos + gap; pos += gap; end += gap;
            } else if (nops > 0 && pf.overlaps && r.chance(0.2)) {
                int64_t have = pos - s.first_id;
                int c = (int) r.below(5);
                int64_t ov = c == 0 ? 1 : c == 1 ? r.range(1, 9) : c == 2 ? r.range(1, std::max<int64_t>(1, have)) : c == 3 ? n + r.range(0, 3) : r.range(1, 70);
                ov = std::min(ov, have);
                if (pf.subbyte_aligned && bits < 8) { int64_t q = 8 / bits; ov = (ov / q) * q; }
                if (ov > 0) { o.a = pos - ov; o.n = n + (c == 3 ? 0 : ov); if (c == 3) { /* total overlap: nothing appended */ o.n = std::min<int64_t>(o.n, ov); } }
            }
            int64_t new_end = o.a + o.n;
            if (new_end > pos) pos = new_end;
            s.data.push_back(o); ++nops;
            if (pf.omit_ops && r.chance(0.12)) { Op m; m.kind = OP_OMIT; m.sig = s.sig; m.prod = s.prod; m.en = r.chance(0.6) ? 1 : 0; s.data.push_back(m); }
            if (nops >= 400) break;
        }
        // on-request omission is switched off before close (KF-C15-onrequest-omit-drops-tail: an omitted final partial block loses its tail)
        { bool en = false; for (auto &o : s.data) if (o.kind == OP_OMIT) en = o.en; if (en) { Op m; m.kind = OP_OMIT; m.sig = s.sig; m.prod = s.prod; m.en = 0; s.data.push_back(m); } }
    }
    // ---- annotations / utc per signal (and global signal 0)
    auto gen_annos = [&](int sig, int prod, int64_t t0, int64_t span, bool allow) {
        std::vector<Op> out;
        if (!allow || !pf.annos) return out;
        int c = (int) r.below(6);
        int n = c == 0 ? 0 : c == 1 ? (int) r.range(1, 5) : (int) r.range(1, std::max(1, pf.max_annos));
        const bool deep = deep_annos && !sigs.empty() && sig == sigs[0].sig;
        if (deep) n = (int) r.range(33000, 70000);
        int64_t t = t0 + r.range(-3, 3);
        for (int i = 0; i < n; ++i) {
            Op o; o.kind = OP_ANNO; o.sig = sig; o.prod = prod;
            int sc = (int) r.below(10);
            t += sc < 4 ? 0 : sc < 8 ? r.range(1, std::max<int64_t>(2, span / (n + 1))) : r.range(0, 3);
            o.a = t; o.at = (int) r.below(4); o.grp = (int) r.below(4) ? 0 : (int) r.range(0, 255);
            o.st = (int) r.range(1, 3);
            float y = r.chance(0.3) ? NAN : (float) r.range(-1000, 1000) / 8.0f; memcpy(&o.ybits, &y, 4);
            int pc = (int) r.below(8);
            if (deep) pc = 1 + (int) r.below(3);
            o.n = pc == 0 ? (o.st == 1 ? 0 : 1) : pc < 6 ? r.range(1, 40) : r.range(1, pf.max_payload);
            if (deep) o.n = r.range(1, 4);
            if (pf.engine_d && P.mrb_size) o.n = std::min<int64_t>(o.n, std::max<int64_t>(1, (int64_t) P.mrb_size - 60));
            o.gs = r.next();
            out.push_back(o);
        }
        return out;
    };
    auto gen_utcs = [&](const SigPlan &s) {
        std::vector<Op> out;
        if (!pf.utcs || s.sigtype) return out;
        int c = (int) r.below(8);
        int n = c == 0 ? 0 : c == 1 ? 1 : c == 2 ? 2 : c == 3 && pf.max_utcs >= 1001 ? (int) r.range(999, 1001) : (int) r.range(1, std::max(1, pf.max_utcs));
        int64_t id = s.first_id + (r.chance(0.2) ? r.range(0, 50) : 0);
        double ticks_per_sample = 1073741824.0 / (double) std::max<uint32_t>(1, s.p[0]);
        int64_t utc = (int64_t) r.range(1LL << 55, 1LL << 56);
        int64_t step_hint = std::max<int64_t>(1, s.total / (n + 1));
        // UTC entries are usually written on a timer (every 0.05 .. 200 s), not per block: at MHz rates the pairs are 10^5 .. 10^11 samples apart,
        // whatever the number of samples stored (products of id distance and tick distance beyond 2^63 inside one segment)
        const bool timer_spacing = (pf.prop == "C12" && r.chance(0.4)) || (pf.prop != "C12" && pf.utcs && r.chance(0.05));
        for (int i = 0; i < n; ++i) {
            Op o; o.kind = OP_UTC; o.sig = s.sig; o.prod = s.prod; o.a = id; o.b = utc;
            out.push_back(o);
            int64_t d = r.chance(0.3) ? r.range(1, 10) : r.range(1, 2 * step_hint);
            if (timer_spacing) { double secs = 0.05 * pow(4000.0, (double) r.range(0, 1000) / 1000.0); d = std::max<int64_t>(1, (int64_t) ((double) std::max<uint32_t>(1, s.p[0]) * secs)); }
            if (pf.prop != "C12" && r.chance(0.04)) d = 0;     // a repeated sample id (a logger stamping the latest id while the stream stalls); C12 itself states increasing ids
            id += d;
            double drift = 1.0 + (double) r.range(-200, 200) / 1e6;
            utc += std::max<int64_t>(1, (int64_t) llround((double) d * ticks_per_sample * drift)) ;
        }
        return out;
    };
    // ---- assemble: definitions (some late), then interleave streams
    std::vector<Op> defs_src, body;
    // The reader and the writer keep definition strings in 1 MiB blocks: some programs carry enough string bytes to cross a block boundary
    // (knob too large for the miss path otherwise); misuse programs rarely pass a single string that cannot fit a block at all.
    const bool long_strings = (pf.prop == "C13" || pf.prop == "C10" || pf.prop == "C17") && r.chance(pf.prop == "C13" ? 0.12 : 0.04);
    const bool giant_string = (pf.misuse && r.chance(0.02)) || (pf.prop == "C13" && r.chance(0.03));     // C13: a refused definition must leave no trace (identity rules afterwards)
    auto long_len = [&](int cur) { return (long_strings && cur > 0 && r.chance(0.8)) ? (int) r.range(30000, 140000) : cur; };
    for (size_t i = 0; i < srcs.size(); ++i) {
        Op o; o.kind = OP_SRC; o.src = srcs[i]; o.gs = r.next();
        for (int k = 0; k < 5; ++k) { int c = (int) r.below(10); o.sl[k] = c == 0 ? -1 : c == 1 ? 0 : c < 9 ? (int) r.range(1, 24) : (int) r.range(25, 300); o.sl[k] = long_len(o.sl[k]); }
        if (giant_string && i == 0) o.sl[(int) r.below(5)] = (1 << 20) - 6 + (int) r.below(12);
        if (giant_string && i == 0 && pf.prop == "C13" && r.chance(0.6)) { Op again = o; again.gs = r.next(); for (int k = 0; k < 5; ++k) again.sl[k] = (int) r.range(1, 24); defs_src.push_back(o); o = again; }     // the same id defined again, acceptably
        defs_src.push_back(o);
    }
    struct Stream { std::vector<Op> ops; size_t pos = 0; };
    std::vector<Stream> streams;
    std::vector<Op> sigdefs;
    for (auto &s : sigs) {
        Op o; o.kind = OP_SIG; o.sig = s.sig; o.src = s.src; o.dtype = s.dtype; o.sigtype = s.sigtype; for (int k = 0; k < 7; ++k) o.p[k] = s.p[k];
        o.gs = r.next(); for (int k = 0; k < 2; ++k) { int c = (int) r.below(10); o.sl[k] = c == 0 ? -1 : c == 1 ? 0 : c < 9 ? (int) r.range(1, 24) : (int) r.range(25, 300); o.sl[k] = long_len(o.sl[k]); }
        sigdefs.push_back(o);
        // merge data + annos + utc of this signal into one stream keeping the order within each kind
        Stream st;
        std::vector<Op> an = gen_annos(s.sig, s.prod, s.first_id, std::max<int64_t>(10, s.total), true);
        std::vector<Op> ut = gen_utcs(s);
        size_t ia = 0, iu = 0, id = 0;
        while (ia < an.size() || iu < ut.size() || id < s.data.size()) {
            size_t wa = an.size() - ia, wu = ut.size() - iu, wd = (s.data.size() - id) * 3;
            uint64_t x = r.below(wa + wu + wd);
            if (x < wa) st.ops.push_back(an[ia++]); else if (x < wa + wu) st.ops.push_back(ut[iu++]); else st.ops.push_back(s.data[id++]);
        }
        streams.push_back(st);
    }
    if (pf.annos && r.chance(0.5)) { Stream st; st.ops = gen_annos(0, 0, (int64_t) r.range(0, 1000000), 100000, true); streams.push_back(st); }
    if (pf.users) {
        Stream st; int n = (int) r.range(0, pf.max_users);
        for (int i = 0; i < n; ++i) {
            Op o; o.kind = OP_USER; o.meta = (int) r.range(0, 4095); o.st = (int) r.range(1, 3); o.gs = r.next();
            int pc = (int) r.below(10);
            o.n = pc == 0 ? (o.st == 1 ? 0 : 1) : pc < 7 ? r.range(1, 100) : pc < 9 ? r.range(1, std::min<int64_t>(pf.max_payload, 5000)) : r.range(1, pf.max_payload);
            if (pf.engine_d && P.mrb_size) o.n = std::min<int64_t>(o.n, std::max<int64_t>(1, (int64_t) P.mrb_size - 60));
            o.prod = P.producers > 1 ? (int) r.below(P.producers) : 0;
            // a refused call must leave no trace in the file (own PRNG stream; sync writer only: the threaded writer copies the payload before any check)
            if (!P.use_twr && (pf.prop == "C14" || pf.prop == "C05" || pf.prop == "C13" || pf.prop == "C10")) { Rng rn = rng_derive(o.gs, "nulldata"); if (rn.chance(0.06)) o.en = 1; }
            st.ops.push_back(o);
        }
        streams.push_back(st);
    }
    // definitions: sources first; each signal definition placed before its first use; some defined late
    for (auto &o : defs_src) P.ops.push_back(o);
    bool late_defs = !pf.engine_d && r.chance(0.4);
    std::vector<bool> defined(sigs.size(), false);
    if (!late_defs) { for (size_t i = 0; i < sigs.size(); ++i) { P.ops.push_back(sigdefs[i]); defined[i] = true; } }
    size_t remaining = 0; for (auto &s : streams) remaining += s.ops.size();
    while (remaining) {
        size_t k; do { k = r.below(streams.size()); } while (streams[k].pos >= streams[k].ops.size());
        int burst = (int) r.range(1, 4);
        while (burst-- && streams[k].pos < streams[k].ops.size()) {
            if (k < sigs.size() && !defined[k]) { P.ops.push_back(sigdefs[k]); defined[k] = true; }
            P.ops.push_back(streams[k].ops[streams[k].pos++]); --remaining;
            if (pf.flushes && r.chance(0.08)) { Op f; f.kind = OP_FLUSH; f.prod = P.producers > 1 ? (int) r.below(P.producers) : 0; P.ops.push_back(f); }
        }
    }
    for (size_t i = 0; i < sigs.size(); ++i) if (!defined[i]) P.ops.push_back(sigdefs[i]);
    if (pf.flushes && r.chance(0.3)) { Op f; f.kind = OP_FLUSH; P.ops.push_back(f); }
    // A file without any time-series data ends (before END) with whatever was written last instead of the summaries that close appends:
    // definitions and user data only, the last item of a size that matters to the end-of-file logic (empty, or 28 bytes = header-sized with its CRC).
    if (!pf.engine_d && pf.users && r.chance(0.04)) {
        std::vector<Op> keep; for (auto &o : P.ops) if (o.kind == OP_SRC || o.kind == OP_SIG || o.kind == OP_USER || o.kind == OP_FLUSH) keep.push_back(o);
        Op u; u.kind = OP_USER; u.meta = (int) r.range(0, 4095); u.gs = r.next();
        int c = (int) r.below(4); if (c == 0) { u.st = 1; u.n = 0; } else if (c == 1) { u.st = 1; u.n = 28; } else if (c == 2) { u.st = 2; u.n = 27; } else { u.st = (int) r.range(1, 3); u.n = r.range(1, 64); }
        keep.push_back(u); P.ops = keep;
    }
    { Op c; c.kind = OP_CLOSE; P.ops.push_back(c); }
    // fsr sample ids are stored relative to the next expected id so that dropping an op keeps the structure
    { std::map<int, int64_t> next;
      for (auto &o : P.ops) if (o.kind == OP_FSR) { auto it = next.find(o.sig); if (it == next.end()) { o.d = 0; next[o.sig] = o.a + o.n; } else { o.d = o.a - it->second; if (o.a + o.n > it->second) it->second = o.a + o.n; } } }
    // ---- reader program from the model of the (conforming) program
    Model m;
    for (auto &o : P.ops) if (m.expect(o) == 0) m.apply(o);
    Rng rr = rng_derive(seed, "reads");
    gen_reads(pf, P, m, rr);
    if (pf.misuse && r.chance(0.5)) P.variant_flags = (int) r.range(20, 160);      // number of raw-layer calls after the reader / copy phase
    if (pf.misuse) {
        // ---- misuse profile: perturb the conforming program (ids 0..65535, duplicates, wrong types, windows outside, zero / huge lengths, extreme parameters)
        Rng x = rng_derive(seed, "misuse");
        auto weird_id = [&](int cur) { int c = (int) x.below(6); return c == 0 ? (int) x.range(0, 65535) : c == 1 ? (int) x.range(256, 300) : c == 2 ? 0 : c == 3 ? 255 : c == 4 ? (int) x.range(1, 255) : cur; };
        static const uint32_t extreme[] = {0, 1, 2, 9, 10, 11, 255, 256, 257, 65535, 65536, 1000000, 0x7fffffffu, 0xfffffffeu, 0xffffffffu};
        std::vector<Op> ops2;
        for (auto &o0 : P.ops) {
            Op o = o0;
            if (o.kind != OP_CLOSE && x.chance(0.25)) {
                switch (o.kind) {
                    case OP_SRC: o.src = weird_id(o.src); break;
                    case OP_SIG: { int c = (int) x.below(6);
                                   if (c == 5) { static const uint32_t codes[] = {0x00000000u, 0x00000104u, 0x00000304u, 0x00082004u, 0x00000501u, 0x00008001u, 0x00002008u, 0xffffffffu, 0x00001003u | 0x40u, 0x00081001u, 0x00042003u};
                                                 o.dtx = codes[x.below(11)]; if (o.dtx == 0x00081001u) o.dtype = DT_I16; if (o.dtx == 0x00042003u) o.dtype = DT_U32; break; }
                                   if (c == 0) o.sig = weird_id(o.sig); else if (c == 1) o.src = weird_id(o.src); else if (c == 2) o.sigtype = (int) x.pick(std::vector<int>{0, 1, 2, 7, 255});
                                   else { int f = (int) x.range(0, 6); o.p[f] = extreme[x.below(15)]; if (x.chance(0.3)) { int f2 = (int) x.range(1, 4); o.p[f2] = extreme[x.below(15)]; } } break; }
                    case OP_FSR: { int c = (int) x.below(4); if (c == 0) o.sig = weird_id(o.sig); else if (c == 1) o.n = 0; else if (c == 2) o.n = x.range(1, 300000); else o.d = x.range(-100000, 100000); break; }
                    case OP_OMIT: o.sig = weird_id(o.sig); o.en = (int) x.pick(std::vector<int>{0, 1, 2, 255, -1}); break;
                    case OP_ANNO: { int c = (int) x.below(4); if (c == 0) o.sig = weird_id(o.sig); else if (c == 1) o.st = (int) x.pick(std::vector<int>{0, 1, 2, 3, 4, 15, 255, 256}); else if (c == 2) o.at = (int) x.pick(std::vector<int>{0, 3, 4, 200, 255, 256, 100000}); else o.a = x.chance(0.5) ? INT64_MIN / 2 : INT64_MAX / 2; break; }
                    case OP_UTC: { int c = (int) x.below(3); if (c == 0) o.sig = weird_id(o.sig); else if (c == 1) o.a = x.range(-1000000, 1000000); else o.b = x.chance(0.5) ? INT64_MIN / 2 : INT64_MAX / 2; break; }
                    case OP_USER: { int c = (int) x.below(3); if (c == 0) o.st = (int) x.pick(std::vector<int>{0, 4, 15, 255}); else if (c == 1) o.meta = (int) x.range(0, 65535); else o.n = o.st == 1 ? 0 : 1; break; }
                    default: break;
                }
            }
            ops2.push_back(o);
            if ((o.kind == OP_SRC || o.kind == OP_SIG) && x.chance(0.15)) ops2.push_back(o);          // duplicate definition
        }
        P.ops = ops2; P.resolve();
        for (auto &o : P.reads) {
            if (!x.chance(0.35)) continue;
            int c = (int) x.below(6);
            if (c == 0) o.sig = weird_id(o.sig);
            else if (c == 1) o.a = x.range(-50, 50);
            else if (c == 2) o.a = x.range(0, 200000);
            else if (c == 3) o.n = x.chance(0.5) ? 0 : -x.range(1, 10);
            else if (c == 4) o.n = x.range(1, (o.kind == RD_FSR || o.kind == RD_FSR_F32) ? 3000000 : (o.kind == RD_STATS ? 50000 : 5));
            else if (o.kind == RD_STATS) o.b = x.pick(std::vector<int64_t>{0, -1, 1, 1000000000LL, INT64_MAX / 4});
        }
        { Op q; q.kind = RD_LEN; q.sig = (int) x.range(0, 65535); P.reads.push_back(q); q.kind = RD_S2T; q.a = x.range(-1000, 1000); P.reads.push_back(q); q.kind = RD_ANNO; q.a = 0; q.n = 0; P.reads.push_back(q); }
    }
    return P;
}

void gen_reads(const Profile &pf, Plan &P, const Model &m, Rng &r) {
    std::vector<Op> per_sig;
    if (pf.reads_defs) {
        Op o; o.kind = RD_SOURCES; P.reads.push_back(o); o.kind = RD_SIGNALS; P.reads.push_back(o);
    }
    for (auto &kv : m.signals) {
        const MSignal &s = kv.second;
        NormDef nd = approx_norm(s.dtype, s.p);
        int64_t len = s.length();
        if (pf.reads_defs) { Op o; o.kind = RD_SIGNAL; o.sig = s.id; per_sig.push_back(o); }
        if (s.sigtype == 0 && s.id != 0) { Op o; o.kind = RD_LEN; o.sig = s.id; o.dtype = s.dtype; P.reads.push_back(o); }
        if (pf.reads_fsr && s.sigtype == 0 && len > 0) {
            int nw = (int) r.range(3, 9);
            int64_t l1 = (int64_t) nd.eps * nd.sdf;
            for (int i = 0; i < nw; ++i) {
                Op o; o.kind = (s.dtype == DT_F32 && r.chance(0.3)) ? RD_FSR_F32 : RD_FSR; o.sig = s.id; o.dtype = s.dtype;
                int64_t maxw = std::min<int64_t>(len, std::max<int64_t>(3 * (int64_t) nd.spd + 9, 600));
                maxw = std::min<int64_t>(maxw, 40000);
                int c = (int) r.below(12);
                int64_t a, n;
                int64_t edges[4] = {(int64_t) nd.spd * r.range(0, std::max<int64_t>(0, len / nd.spd)), (int64_t) nd.sdf * r.range(0, std::max<int64_t>(0, len / nd.sdf)),
                                    l1 * r.range(0, std::max<int64_t>(0, len / l1)), len};
                switch (c) {
                    case 0: a = 0; n = std::min(len, maxw); break;
                    case 1: a = std::max<int64_t>(0, len - r.range(1, maxw)); n = len - a; break;          // ends at the last sample
                    case 2: a = r.range(0, len - 1); n = 1; break;
                    case 3: case 4: case 5: { int64_t e = edges[r.below(4)] + r.range(-1, 1); a = std::min(std::max<int64_t>(0, e - r.range(0, maxw / 2)), len - 1); n = r.range(1, maxw); break; }
                    case 6: { int64_t e = edges[r.below(4)] + r.range(-1, 1); a = std::min(std::max<int64_t>(0, e), len - 1); n = r.range(1, maxw); break; }
                    case 7: a = r.range(0, len - 1); n = r.range(1, 17); break;
                    case 8: a = len - 1; n = 1; break;
                    default: a = r.range(0, len - 1); n = r.range(1, maxw); break;
                }
                if (a + n > len) n = len - a;
                if (n < 1) { a = 0; n = 1; }
                o.a = a; o.n = n; o.cold = r.chance(0.3);
                per_sig.push_back(o);
            }
        }
        if (pf.reads_stats && s.sigtype == 0 && len > 0 && s.dtype != DT_U24 && s.dtype != DT_I24) {   // the reader cannot summarise 24-bit types
            int nq = (int) r.range(2, 7);
            for (int i = 0; i < nq; ++i) {
                Op o; o.kind = RD_STATS; o.sig = s.id; o.dtype = s.dtype;
                // increments around the level selectors
                int64_t lvl = r.range(0, 4), base = nd.sdf; for (int64_t k = 1; k < lvl; ++k) base *= nd.sumdf;
                int c = (int) r.below(8);
                int64_t inc = lvl == 0 ? r.range(1, std::max<int64_t>(1, nd.sdf - 1)) : c == 0 ? base : c == 1 ? base + 1 : c == 2 ? base - 1 : c == 3 ? base * r.range(1, 5) : c == 4 ? base + r.range(0, base) : r.range(1, 3 * base);
                inc = std::max<int64_t>(1, std::min(inc, len));
                if (lvl == 0 && inc > 70000) inc = r.range(1, 70000);
                int cc = (int) r.below(6);
                int64_t cnt = cc == 0 ? 1 : cc == 1 ? 2 : cc == 2 ? 3 : cc == 3 ? 25 : cc == 4 ? r.range(1, 60) : len / inc;
                cnt = std::max<int64_t>(1, std::min<int64_t>(cnt, len / inc));
                cnt = std::min<int64_t>(cnt, 3000);
                if (lvl == 0) cnt = std::min<int64_t>(cnt, std::max<int64_t>(1, 60000 / inc));
                int64_t slack = len - inc * cnt;
                int sc = (int) r.below(4);
                int64_t a = sc == 0 ? 0 : sc == 1 ? slack : r.range(0, std::max<int64_t>(0, slack));
                o.a = a; o.b = inc; o.n = cnt; o.cold = r.chance(0.2);
                per_sig.push_back(o);
            }
        }
        if (pf.reads_anno) {
            Op o; o.kind = RD_ANNO; o.sig = s.id; o.a = INT64_MIN / 4; o.n = 0; per_sig.push_back(o);
            int nq = (int) r.range(0, 5);
            for (int i = 0; i < nq && !s.annos.empty(); ++i) {
                const MAnno &a = s.annos[r.below(s.annos.size())];
                int64_t off = (s.sigtype == 0 && s.has_data) ? s.first_id : 0;
                Op q; q.kind = RD_ANNO; q.sig = s.id; q.a = a.t - off + r.range(-1, 1); q.n = r.chance(0.3) ? r.range(1, 4) : 0;
                if (r.chance(0.1)) q.a = s.annos.back().t - off + 5;
                per_sig.push_back(q);
            }
        }
        if (pf.reads_utc && s.sigtype == 0 && s.id != 0) {
            Op o; o.kind = RD_UTC; o.sig = s.id; o.a = INT64_MIN / 4; o.n = 0; per_sig.push_back(o);
            int nq = (int) r.range(0, 4);
            for (int i = 0; i < nq && !s.utcs.empty(); ++i) {
                const MUtc &u = s.utcs[r.below(s.utcs.size())];
                int64_t off = s.has_data ? s.first_id : 0;
                Op q; q.kind = RD_UTC; q.sig = s.id; q.a = u.id - off + r.range(-1, 1); q.n = r.chance(0.3) ? r.range(1, 4) : 0; per_sig.push_back(q);
            }
        }
        if (pf.reads_conv && s.sigtype == 0 && s.id != 0) {
            int nq = (int) r.range(2, 8);
            for (int i = 0; i < nq; ++i) {
                Op q; q.kind = RD_S2T; q.sig = s.id;
                int64_t off = s.has_data ? s.first_id : 0;
                if (!s.utcs.empty() && r.chance(0.7)) {
                    size_t k = r.below(s.utcs.size());
                    int c = (int) r.below(4);
                    q.a = s.utcs[k].id - off + (c == 0 ? 0 : c == 1 ? r.range(-3, 3) : c == 2 && k + 1 < s.utcs.size() ? r.range(0, s.utcs[k + 1].id - s.utcs[k].id) : r.range(-1000, 1000));
                } else q.a = r.range(-100, 5000);
                per_sig.push_back(q);
                if (!s.utcs.empty() && r.chance(0.5)) { Op t; t.kind = RD_T2S; t.sig = s.id; size_t k = r.below(s.utcs.size()); t.a = s.utcs[k].utc + (r.chance(0.5) ? 0 : r.range(-100000, 100000)); per_sig.push_back(t); }
            }
        }
    }
    // interleave reads across signals (cache hit / miss / eviction by another signal)
    for (size_t i = per_sig.size(); i > 1; --i) { size_t j = r.below(i); std::swap(per_sig[i - 1], per_sig[j]); }
    for (auto &o : per_sig) P.reads.push_back(o);
    if (pf.reads_user) { Op o; o.kind = RD_USER; o.n = 0; P.reads.push_back(o); if (r.chance(0.4)) { o.n = r.range(1, 3); P.reads.push_back(o); } }
}

bool plan_in_domain(const Plan &P, const Profile &pf) {
    std::map<int, int64_t> first;
    { std::map<int, int> omit_on; for (auto &o : P.ops) if (o.kind == OP_OMIT) omit_on[o.sig] = o.en; for (auto &kv : omit_on) if (kv.second && !pf.misuse) return false; }
    if (!pf.misuse) {     // conforming programs: every signal is defined (once, on a defined source) before it is used
        std::set<int> sigs{0}, srcs{0};
        for (auto &o : P.ops) {
            if (o.kind == OP_SRC) { if (!srcs.insert(o.src).second) return false; }
            else if (o.kind == OP_SIG) { if (!srcs.count(o.src) || !sigs.insert(o.sig).second) return false; }
            else if ((o.kind == OP_FSR || o.kind == OP_OMIT || o.kind == OP_UTC || o.kind == OP_ANNO) && !sigs.count(o.sig)) return false;
        }
    }
    if (pf.no_omission) for (auto &o : P.ops) {
        if (o.kind == OP_OMIT) return false;
        if (o.kind == OP_FSR && dt_bits[o.dtype] <= 8 && (o.g == G_CONST || o.g == G_CBLOCKS)) return false;
        if (o.kind == OP_FSR && dt_bits[o.dtype] <= 8 && o.d > 0) return false;      // integer gap fill is a run of zeros, i.e. possibly a constant block
    }
    for (auto &o : P.ops) {
        if (o.kind != OP_FSR) continue;
        if (!pf.gaps && !pf.misuse && !pf.engine_d && o.d > 0) return false;
        if (!pf.overlaps && !pf.misuse && o.d < 0) return false;
        int bits = dt_bits[o.dtype];
        if (pf.subbyte_aligned && bits < 8) {
            if (!first.count(o.sig)) first[o.sig] = o.a;
            if ((((o.a - first[o.sig]) * bits) & 7) || ((o.n * bits) & 7)) return false;
        }
    }
    return true;
}
