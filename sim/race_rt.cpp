// Happens-before race detector behind clang's ThreadSanitizer *instrumentation* (race variant only).
// The library is compiled with -fsanitize=thread -mllvm -tsan-distinguish-volatile but linked against this
// runtime instead of the TSan runtime: every instrumented access is (a) checked against FastTrack-style vector
// clocks driven by the simulated mutex/create/join edges and (b) a candidate for an access-level preemption.
#include "sim.h"
#include <cstdio>
#include <cstdlib>
#include <dlfcn.h>
#include <unordered_map>
#include <algorithm>

namespace sim { bool cur_holds_mutex(); void preempt_now(); }

namespace race {
const int MAXT = 16;
struct VC { uint32_t c[MAXT]; };
struct Cell { uint8_t wt; uint32_t wc; uint32_t rc[MAXT]; const void *wpc; const void *rpc[MAXT]; };
static VC vc[MAXT];                                  // per task
static std::unordered_map<const void *, VC> lock_vc;  // release clocks of sync objects
static std::unordered_map<uintptr_t, Cell> shadow;    // per byte
static std::vector<std::pair<uintptr_t, uintptr_t>> scope;   // sorted in-scope ranges [a,b)
static uintptr_t hot_a = 1, hot_b = 0;
static int cur = 0;
static bool enabled = false;
static std::vector<std::string> reports;
static uint64_t n_access = 0, n_inscope = 0, n_volatile = 0, n_preempt = 0;
static std::vector<uint64_t> preempt_at; static size_t preempt_i = 0;
static const void *stack_pc[MAXT][64]; static int stack_n[MAXT];
static std::pair<uintptr_t, uintptr_t> excluded{1, 0};   // control fields at the front of jls_twr_s

static const char *fname(const void *pc) { Dl_info di; if (pc && dladdr(pc, &di) && di.dli_sname) return di.dli_sname; return "?"; }
static std::string stack_text(int t) { std::string s; for (int i = stack_n[t] - 1; i >= 0 && i >= stack_n[t] - 4; --i) { if (!s.empty()) s += " < "; s += fname(stack_pc[t][i]); } return s; }

void reset(uint64_t seed, int k_preempt) {
    memset(vc, 0, sizeof vc); for (int i = 0; i < MAXT; ++i) vc[i].c[i] = 1;
    lock_vc.clear(); shadow.clear(); scope.clear(); hot_a = 1; hot_b = 0; cur = 0; reports.clear();
    n_access = n_inscope = n_volatile = n_preempt = 0; memset(stack_n, 0, sizeof stack_n); excluded = {1, 0};
    preempt_at.clear(); preempt_i = 0;
    Rng r = rng_derive(seed, "access_preempt");
    for (int i = 0; i < k_preempt; ++i) preempt_at.push_back(r.below(60000) + 1);
    std::sort(preempt_at.begin(), preempt_at.end());
    enabled = true;
}
void disable() { enabled = false; }
const std::vector<std::string> &get_reports() { return reports; }
void stats(uint64_t *acc, uint64_t *ins, uint64_t *vol, uint64_t *pre) { *acc = n_access; *ins = n_inscope; *vol = n_volatile; *pre = n_preempt; }

void scope_add(uintptr_t a, uintptr_t b) { scope.push_back({a, b}); std::sort(scope.begin(), scope.end()); hot_a = 1; hot_b = 0; }
void scope_remove(uintptr_t a, uintptr_t b) {
    for (size_t i = 0; i < scope.size(); ++i) if (scope[i].first == a) { scope.erase(scope.begin() + (long) i); break; }
    for (uintptr_t p = a; p < b; ++p) shadow.erase(p);
    hot_a = 1; hot_b = 0;
}
void scope_exclude(uintptr_t a, uintptr_t b) { excluded = {a, b}; }

static inline bool in_scope(uintptr_t a) {
    if (a >= hot_a && a < hot_b) return !(a >= excluded.first && a < excluded.second);
    auto it = std::upper_bound(scope.begin(), scope.end(), std::make_pair(a, UINTPTR_MAX));
    if (it == scope.begin()) return false;
    --it;
    if (a >= it->first && a < it->second) { hot_a = it->first; hot_b = it->second; return !(a >= excluded.first && a < excluded.second); }
    return false;
}

static void report(uintptr_t a, bool is_write, int other, bool other_write, const void *opc) {
    if (reports.size() >= 4) return;
    char b[640];
    uintptr_t base = 0; size_t size = 0; uint64_t id = 0;
    bool blk = simalloc::find_block((const void *) a, &base, &size, &id);
    snprintf(b, sizeof b, "data race on byte %p (%s block#%llu size %zu offset %zu): %s by task %d [%s] is unordered with %s by task %d [%s]",
             (void *) a, blk ? "heap" : "non-heap", (unsigned long long) id, size, blk ? (size_t) (a - base) : 0, is_write ? "write" : "read", cur, stack_text(cur).c_str(),
             other_write ? "write" : "read", other, fname(opc));
    reports.push_back(b);
}

static void access(uintptr_t a, size_t n, bool w, const void *pc) {
    if (!enabled) return;
    ++n_access;
    if (!in_scope(a)) return;
    ++n_inscope;
    int t = cur; const VC &my = vc[t];
    for (size_t i = 0; i < n; ++i) {
        Cell &c = shadow[a + i];
        if (c.wc && c.wt != t && c.wc > my.c[c.wt]) report(a + i, w, c.wt, true, c.wpc);
        if (w) {
            for (int o = 0; o < MAXT; ++o) if (o != t && c.rc[o] && c.rc[o] > my.c[o]) { report(a + i, true, o, false, c.rpc[o]); break; }
            c.wt = (uint8_t) t; c.wc = my.c[t]; c.wpc = pc;
        } else { c.rc[t] = my.c[t]; c.rpc[t] = pc; }
    }
    // access-level preemption: only where no simulated lock is held (inside a critical section nobody else could run that section anyway)
    if (preempt_i < preempt_at.size() && n_inscope >= preempt_at[preempt_i]) {
        ++preempt_i;
        if (!sim::cur_holds_mutex()) { ++n_preempt; sim::preempt_now(); }
    }
}
}

using namespace race;

extern "C" {
void race_scope_add(uintptr_t a, uintptr_t b) { if (enabled) scope_add(a, b); }
void race_scope_remove(uintptr_t a, uintptr_t b) { if (enabled) scope_remove(a, b); }
void race_exclude(uintptr_t a, uintptr_t b) { scope_exclude(a, b); }
void race_begin(uint64_t seed, int k) { reset(seed, k); }
void race_end() { disable(); }
int race_report_count() { return (int) reports.size(); }
const char *race_report(int i) { return reports[(size_t) i].c_str(); }
void race_stats(uint64_t *a, uint64_t *b, uint64_t *c, uint64_t *d) { stats(a, b, c, d); }
void race_on_task_switch(int task) { cur = task < MAXT ? task : MAXT - 1; }
void race_on_acquire(void *obj) { auto it = lock_vc.find(obj); if (it == lock_vc.end()) return; for (int i = 0; i < MAXT; ++i) vc[cur].c[i] = std::max(vc[cur].c[i], it->second.c[i]); }
void race_on_release(void *obj) { lock_vc[obj] = vc[cur]; ++vc[cur].c[cur]; }
void race_on_create(int parent, int child) { if (child >= MAXT || parent < 0 || parent >= MAXT) return; for (int i = 0; i < MAXT; ++i) vc[child].c[i] = std::max(vc[child].c[i], vc[parent].c[i]); vc[child].c[child] = std::max<uint32_t>(vc[child].c[child], 1); ++vc[parent].c[parent]; }
void race_on_join(int joiner, int child) { if (child >= MAXT || joiner < 0 || joiner >= MAXT) return; for (int i = 0; i < MAXT; ++i) vc[joiner].c[i] = std::max(vc[joiner].c[i], vc[child].c[i]); }

void __tsan_init() {}
void __tsan_func_entry(void *pc) { if (stack_n[cur] < 64) stack_pc[cur][stack_n[cur]] = pc; ++stack_n[cur]; }
void __tsan_func_exit() { if (stack_n[cur] > 0) --stack_n[cur]; }
#define RW(n) \
    void __tsan_read##n(void *a) { access((uintptr_t) a, n, false, __builtin_return_address(0)); } \
    void __tsan_write##n(void *a) { access((uintptr_t) a, n, true, __builtin_return_address(0)); } \
    void __tsan_unaligned_read##n(void *a) { access((uintptr_t) a, n, false, __builtin_return_address(0)); } \
    void __tsan_unaligned_write##n(void *a) { access((uintptr_t) a, n, true, __builtin_return_address(0)); } \
    void __tsan_volatile_read##n(void *a) { (void) a; ++n_volatile; sim::yield_point(EV_NOTE); } \
    void __tsan_volatile_write##n(void *a) { (void) a; ++n_volatile; sim::yield_point(EV_NOTE); } \
    void __tsan_unaligned_volatile_read##n(void *a) { (void) a; ++n_volatile; sim::yield_point(EV_NOTE); } \
    void __tsan_unaligned_volatile_write##n(void *a) { (void) a; ++n_volatile; sim::yield_point(EV_NOTE); } \
    void __tsan_read_write##n(void *a) { access((uintptr_t) a, n, true, __builtin_return_address(0)); } \
    void __tsan_unaligned_read_write##n(void *a) { access((uintptr_t) a, n, true, __builtin_return_address(0)); }
RW(1) RW(2) RW(4) RW(8) RW(16)
void __tsan_read_range(void *a, unsigned long n) { access((uintptr_t) a, n, false, __builtin_return_address(0)); }
void __tsan_write_range(void *a, unsigned long n) { access((uintptr_t) a, n, true, __builtin_return_address(0)); }
void __tsan_vptr_update(void **, void *) {}
void __tsan_vptr_read(void **) {}
void __tsan_ignore_thread_begin() {}
void __tsan_ignore_thread_end() {}
// memcpy/memset/memmove of library objects are redirected here (seams_race.map): range accesses for the detector
void *sim_memcpy(void *d, const void *s, size_t n) { if (n) { access((uintptr_t) s, n, false, __builtin_return_address(0)); access((uintptr_t) d, n, true, __builtin_return_address(0)); } return memcpy(d, s, n); }
void *sim_memmove(void *d, const void *s, size_t n) { if (n) { access((uintptr_t) s, n, false, __builtin_return_address(0)); access((uintptr_t) d, n, true, __builtin_return_address(0)); } return memmove(d, s, n); }
void *sim_memset(void *d, int c, size_t n) { if (n) access((uintptr_t) d, n, true, __builtin_return_address(0)); return memset(d, c, n); }
}
