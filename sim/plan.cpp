#include "plan.h"
#include <cstdio>
#include <cstdlib>
#include <cmath>
#include <sstream>

const char *op_names[OP_KIND_COUNT] = {"src", "sig", "fsr", "omit", "anno", "utc", "user", "flush", "close",
    "rd_len", "rd_fsr", "rd_fsr_f32", "rd_stats", "rd_anno", "rd_utc", "rd_user", "rd_s2t", "rd_t2s", "rd_signal", "rd_sources", "rd_signals",
    "copy", "reopen", "flags"};

#define DTDEF(base, size) ((uint32_t) (base) | ((uint32_t) (size) << 8))
const uint32_t dt_code[DT_COUNT] = {DTDEF(3, 1), DTDEF(3, 4), DTDEF(1, 4), DTDEF(3, 8), DTDEF(1, 8), DTDEF(3, 16), DTDEF(1, 16),
    DTDEF(3, 24), DTDEF(1, 24), DTDEF(3, 32), DTDEF(1, 32), DTDEF(3, 64), DTDEF(1, 64), DTDEF(4, 32), DTDEF(4, 64)};
const int dt_bits[DT_COUNT] = {1, 4, 4, 8, 8, 16, 16, 24, 24, 32, 32, 64, 64, 32, 64};
const char *dt_name[DT_COUNT] = {"u1", "u4", "i4", "u8", "i8", "u16", "i16", "u24", "i24", "u32", "i32", "u64", "i64", "f32", "f64"};
int dt_from_code(uint32_t code) { for (int i = 0; i < DT_COUNT; ++i) if (dt_code[i] == (code & 0xffff)) return i; return -1; }

// ------------------------------------------------------------------ text
namespace {
struct KV { std::string k; std::string v; };
std::vector<KV> split(const std::string &line, std::string *head, std::string *head2) {
    std::istringstream is(line); std::string tok; std::vector<KV> out; int i = 0;
    while (is >> tok) {
        size_t eq = tok.find('=');
        if (eq == std::string::npos) { if (i == 0 && head) *head = tok; else if (i == 1 && head2) *head2 = tok; }
        else out.push_back(KV{tok.substr(0, eq), tok.substr(eq + 1)});
        ++i;
    }
    return out;
}
int64_t toi(const std::string &s) { return (int64_t) strtoll(s.c_str(), nullptr, 0); }
uint64_t tou(const std::string &s) { return (uint64_t) strtoull(s.c_str(), nullptr, 0); }
void put(std::string &s, const char *k, int64_t v) { char b[64]; snprintf(b, sizeof b, " %s=%lld", k, (long long) v); s += b; }
void putu(std::string &s, const char *k, uint64_t v) { char b[64]; snprintf(b, sizeof b, " %s=%llu", k, (unsigned long long) v); s += b; }
}

std::string Op::to_text() const {
    std::string s = op_names[kind];
    if (prod) put(s, "prod", prod);
    if (fw >= 0) { put(s, "fw", fw); put(s, "fb", fb); }
    switch (kind) {
        case OP_SRC: put(s, "src", src); putu(s, "gs", gs);
            for (int i = 0; i < 5; ++i) { char k[8]; snprintf(k, sizeof k, "sl%d", i); put(s, k, sl[i]); } break;
        case OP_SIG: put(s, "sig", sig); put(s, "src", src); s += std::string(" dt=") + dt_name[dtype]; put(s, "sigtype", sigtype);
            put(s, "rate", p[0]); put(s, "spd", p[1]); put(s, "sdf", p[2]); put(s, "eps", p[3]); put(s, "sumdf", p[4]); put(s, "adf", p[5]); put(s, "udf", p[6]);
            putu(s, "gs", gs); put(s, "sl0", sl[0]); put(s, "sl1", sl[1]); if (dtx) putu(s, "dtx", dtx); break;
        case OP_FSR: put(s, "sig", sig); s += std::string(" dt=") + dt_name[dtype]; put(s, "a", a); put(s, "d", d); put(s, "n", n); put(s, "g", g); putu(s, "gs", gs); break;
        case OP_OMIT: put(s, "sig", sig); put(s, "en", en); break;
        case OP_ANNO: put(s, "sig", sig); put(s, "a", a); put(s, "n", n); put(s, "st", st); put(s, "at", at); put(s, "grp", grp); putu(s, "y", ybits); putu(s, "gs", gs); break;
        case OP_UTC: put(s, "sig", sig); put(s, "a", a); put(s, "b", b); break;
        case OP_USER: put(s, "meta", meta); put(s, "st", st); put(s, "n", n); putu(s, "gs", gs); if (en) put(s, "en", en); break;     // en=1: NULL data pointer with a non-zero size (sync writer; must be refused)
        case OP_FLUSH: if (en) put(s, "en", en); break;
        case OP_CLOSE: break;
        case OP_FLAGS: put(s, "en", en); break;
        case RD_LEN: case RD_SIGNAL: put(s, "sig", sig); break;
        case RD_FSR: case RD_FSR_F32: put(s, "sig", sig); s += std::string(" dt=") + dt_name[dtype]; put(s, "a", a); put(s, "n", n); put(s, "cold", cold); break;
        case RD_STATS: put(s, "sig", sig); s += std::string(" dt=") + dt_name[dtype]; put(s, "a", a); put(s, "b", b); put(s, "n", n); put(s, "cold", cold); break;
        case RD_ANNO: case RD_UTC: put(s, "sig", sig); put(s, "a", a); put(s, "n", n); break;
        case RD_USER: put(s, "n", n); break;
        case RD_S2T: case RD_T2S: put(s, "sig", sig); put(s, "a", a); break;
        default: break;
    }
    return s;
}

bool Op::from_text(const std::string &line) {
    std::string head;
    auto kv = split(line, &head, nullptr);
    kind = -1;
    for (int i = 0; i < OP_KIND_COUNT; ++i) if (head == op_names[i]) kind = i;
    if (kind < 0) return false;
    for (auto &e : kv) {
        const std::string &k = e.k;
        if (k == "fw") fw = (int) toi(e.v); else if (k == "fb") fb = toi(e.v); else
        if (k == "prod") prod = (int) toi(e.v); else if (k == "sig") sig = (int) toi(e.v); else if (k == "src") src = (int) toi(e.v);
        else if (k == "dt") { dtype = -1; for (int i = 0; i < DT_COUNT; ++i) if (e.v == dt_name[i]) dtype = i; if (dtype < 0) return false; }
        else if (k == "a") a = toi(e.v); else if (k == "d") d = toi(e.v); else if (k == "b") b = toi(e.v); else if (k == "n") n = toi(e.v);
        else if (k == "g") g = (int) toi(e.v); else if (k == "gs") gs = tou(e.v);
        else if (k == "rate") p[0] = (uint32_t) tou(e.v); else if (k == "spd") p[1] = (uint32_t) tou(e.v); else if (k == "sdf") p[2] = (uint32_t) tou(e.v);
        else if (k == "eps") p[3] = (uint32_t) tou(e.v); else if (k == "sumdf") p[4] = (uint32_t) tou(e.v); else if (k == "adf") p[5] = (uint32_t) tou(e.v);
        else if (k == "udf") p[6] = (uint32_t) tou(e.v);
        else if (k == "st") st = (int) toi(e.v); else if (k == "at") at = (int) toi(e.v); else if (k == "grp") grp = (int) toi(e.v);
        else if (k == "y") ybits = (uint32_t) tou(e.v); else if (k == "meta") meta = (int) toi(e.v); else if (k == "en") en = (int) toi(e.v);
        else if (k == "sigtype") sigtype = (int) toi(e.v); else if (k == "cold") cold = (int) toi(e.v); else if (k == "dtx") dtx = (uint32_t) tou(e.v);
        else if (k.size() == 3 && k[0] == 's' && k[1] == 'l') sl[k[2] - '0'] = (int) toi(e.v);
    }
    return true;
}

std::string Plan::to_text() const {
    std::string s; char b[256];
    snprintf(b, sizeof b, "seed %llu\nprop %s\n", (unsigned long long) seed, prop.c_str()); s += b;
    snprintf(b, sizeof b, "knob mrb_size=%u buf_default=%u fill_key=%llu use_twr=%d producers=%d drop=%d read_seed=%llu vflags=%d\n",
             mrb_size, buf_default, (unsigned long long) fill_key, use_twr, producers, drop, (unsigned long long) read_seed, variant_flags); s += b;
    snprintf(b, sizeof b, "policy kind=%d p=%d d=%d q=%d est=%u\n", pol.kind, (int) lround(pol.p * 1e6), pol.d, pol.q, pol.est_len); s += b;
    snprintf(b, sizeof b, "fault spurious_wake=%d eintr=%d spurious_full=%d latency=%d\n", (int) lround(faults.spurious_wake * 1e6),
             (int) lround(faults.eintr * 1e6), (int) lround(faults.spurious_full * 1e6), faults.latency); s += b;
    for (auto &st : faults.stalls) { snprintf(b, sizeof b, "stall task=%d at=%u ns=%lld\n", st.task_kind, st.at_candidate, (long long) st.ns); s += b; }
    for (auto &j : faults.jumps) { snprintf(b, sizeof b, "jump at=%u ns=%lld\n", j.at_candidate, (long long) j.ns); s += b; }
    if (focus_k >= 0) { snprintf(b, sizeof b, "focus_abs k=%lld b=%lld\n", (long long) focus_k, (long long) focus_b); s += b; }
    for (auto &fl : focus) s += "alter " + fl + "\n";
    if (has_decisions) { s += "decisions"; for (uint32_t d : decisions) s += " " + std::to_string(d); s += "\n"; }
    for (auto &o : ops) s += "op " + o.to_text() + "\n";
    for (auto &o : reads) s += "rd " + o.to_text() + "\n";
    return s;
}

bool Plan::from_text(const std::string &text, std::string *err) {
    *this = Plan();
    std::istringstream is(text); std::string line; int ln = 0;
    while (std::getline(is, line)) {
        ++ln;
        if (line.empty() || line[0] == '#') continue;
        std::string head, head2;
        auto kv = split(line, &head, &head2);
        auto get = [&](const char *k, int64_t def) { for (auto &e : kv) if (e.k == k) return toi(e.v); return def; };
        auto getu = [&](const char *k, uint64_t def) { for (auto &e : kv) if (e.k == k) return tou(e.v); return def; };
        if (head == "seed") seed = tou(head2);
        else if (head == "prop") prop = head2;
        else if (head == "knob") {
            mrb_size = (uint32_t) getu("mrb_size", 0); buf_default = (uint32_t) getu("buf_default", 0); fill_key = getu("fill_key", 1);
            use_twr = (int) get("use_twr", 0); producers = (int) get("producers", 1); drop = (int) get("drop", 0); read_seed = getu("read_seed", 0);
            variant_flags = (int) get("vflags", 0);
        } else if (head == "policy") {
            pol.kind = (int) get("kind", 0); pol.p = get("p", 100000) / 1e6; pol.d = (int) get("d", 2); pol.q = (int) get("q", 8); pol.est_len = (uint32_t) getu("est", 2000);
        } else if (head == "fault") {
            faults.spurious_wake = get("spurious_wake", 0) / 1e6; faults.eintr = get("eintr", 0) / 1e6; faults.spurious_full = get("spurious_full", 0) / 1e6;
            faults.latency = (int) get("latency", 0);
        } else if (head == "stall") faults.stalls.push_back(FaultCfg::Stall{(int) get("task", 0), (uint32_t) getu("at", 0), get("ns", 0)});
        else if (head == "jump") faults.jumps.push_back(FaultCfg::Jump{(uint32_t) getu("at", 0), get("ns", 0)});
        else if (head == "focus_abs") { focus_k = get("k", -1); focus_b = get("b", 0); }
        else if (head == "alter") { size_t p2 = line.find(' '); focus.push_back(p2 == std::string::npos ? "" : line.substr(p2 + 1)); }
        else if (head == "decisions") { has_decisions = true; std::istringstream ds(line); std::string t; ds >> t; uint32_t d; while (ds >> d) decisions.push_back(d); }
        else if (head == "op" || head == "rd") {
            Op o; size_t p = line.find(' ');
            if (p == std::string::npos || !o.from_text(line.substr(p + 1))) { if (err) *err = "bad op at line " + std::to_string(ln); return false; }
            (head == "op" ? ops : reads).push_back(o);
        } else { if (err) *err = "bad line " + std::to_string(ln); return false; }
    }
    return true;
}

void Plan::resolve() {
    std::map<int, int64_t> next;
    for (auto &o : ops) {
        if (o.kind != OP_FSR) continue;
        auto it = next.find(o.sig);
        if (it == next.end()) { o.d = 0; next[o.sig] = o.a + o.n; continue; }
        o.a = it->second + o.d;
        if (o.a + o.n > it->second) it->second = o.a + o.n;
    }
}

// ------------------------------------------------------------------ data generators
static inline uint64_t mix(uint64_t a, uint64_t b) { uint64_t x = a ^ (b * 0x9e3779b97f4a7c15ULL); return splitmix64(x); }

uint64_t gen_sample_bits(int dtype, int g, uint64_t gs, int64_t abs_id, uint64_t local) {
    int bits = dt_bits[dtype];
    uint64_t mask = bits == 64 ? ~0ULL : ((1ULL << bits) - 1);
    if (dt_is_float(dtype)) {
        double v;
        switch (g) {
            case G_RAMP: v = (double) (int64_t) ((gs & 0xff) + local) * 0.25; break;
            case G_CONST: v = (double) (int64_t) (gs % 1000) - 500.0; break;
            case G_ALT: v = (local & 1) ? 1.5 : -2.5; break;
            case G_DECADES: { uint64_t r = mix(gs, local); int e = (int) (r % 25) - 12; double m = ((r >> 8) % 20001) / 10000.0 - 1.0; v = m * pow(10.0, e); break; }
            case G_CBLOCKS: v = (double) ((abs_id >> 4) & 3); break;
            case G_NANS: { uint64_t r = mix(gs, local); if (r % 7 == 0) v = NAN; else if (r % 97 == 1) v = INFINITY; else v = (double) (int64_t) (r % 2001) - 1000.0; break; }
            case G_OFFSET: { uint64_t r = mix(gs, local); v = dtype == DT_F32 ? 4096.0 + ((double) (int64_t) (r % 2001) - 1000.0) / 262144.0 : 1.0e12 + ((double) (int64_t) (r % 2001) - 1000.0) / 1024.0; break; }
            default: { uint64_t r = mix(gs, local); v = ((double) (int64_t) (r % 2000001) - 1000000.0) / 1000.0; break; }
        }
        if (dtype == DT_F32) { float f = (float) v; uint32_t u; memcpy(&u, &f, 4); return u; }
        uint64_t u; memcpy(&u, &v, 8); return u;
    }
    uint64_t r;
    switch (g) {
        case G_RAMP: r = (gs & 0xffff) + local; break;
        case G_CONST: r = (gs & 1) ? mask : ((gs & 2) ? 0 : mix(gs, 7)); break;
        case G_ALT: r = (local & 1) ? mask : 0; break;
        case G_CBLOCKS: {   // long runs of constants: run id from absolute sample id so runs span write calls
            uint64_t run = (uint64_t) (abs_id >> ((gs & 7) + 4));
            uint64_t sel = mix(gs, run) % 4;
            r = sel == 0 ? 0 : sel == 1 ? mask : sel == 2 ? mix(gs, run + 99) : mix(gs ^ (uint64_t) abs_id, local);
            break;
        }
        case G_HDRLIKE: {     // byte stream with period 32, phase from the seed (multiples of 8 keep it aligned like chunk headers)
            uint64_t bit0 = local * (uint64_t) bits + 64 * (gs & 3); r = 0;
            for (int k = 0; k < bits; ++k) { uint64_t byte = ((bit0 + (uint64_t) k) >> 3) & 31; if (byte < 4 || byte >= 28) r |= 1ULL << k; }
            break; }
        case G_OFFSET: r = bits >= 16 ? (mask >> 2) - (gs & 0xff) + (mix(gs, local) % 17) : mix(gs, local); if (bits == 64) r = (1ULL << 52) + (mix(gs, local) % 17); break;
        default: r = mix(gs, local); break;
    }
    if (bits == 64 && (g == G_RANDOM || g == G_RAMP)) {
        // keep most 64-bit values within +-2^53 so that the f64 summaries are exact; a few beyond
        if (mix(gs, local ^ 0x77) % 16) { r &= ((1ULL << 53) - 1); if (dt_is_signed(dtype) && (mix(gs, local ^ 0x99) & 1)) r = (uint64_t) (-(int64_t) r); }
    }
    return r & mask;
}

void gen_fill(int dtype, int g, uint64_t gs, int64_t abs_id0, uint64_t n, std::vector<uint8_t> &out) {
    int bits = dt_bits[dtype];
    out.assign((size_t) ((n * bits + 7) / 8) + 1, 0);     // +1: callers of sub-byte paths may read one byte beyond
    if (bits >= 8) {
        int by = bits / 8;
        for (uint64_t i = 0; i < n; ++i) {
            uint64_t v = gen_sample_bits(dtype, g, gs, abs_id0 + (int64_t) i, i);
            memcpy(out.data() + i * by, &v, by);
        }
    } else {
        for (uint64_t i = 0; i < n; ++i) {
            uint64_t v = gen_sample_bits(dtype, g, gs, abs_id0 + (int64_t) i, i);
            uint64_t bit = i * bits;
            out[bit >> 3] |= (uint8_t) (v << (bit & 7));
        }
    }
}

void gen_bytes(uint64_t gs, size_t n, int storage_type, std::vector<uint8_t> &out) {
    out.resize(n);
    if (storage_type == 2 || storage_type == 3) {   // string / json: printable, NUL-terminated, n includes the terminator
        if (n == 0) { out.assign(1, 0); return; }
        for (size_t i = 0; i + 1 < n; ++i) out[i] = (uint8_t) (0x21 + mix(gs, i) % 0x5e);
        out[n - 1] = 0;
    } else {
        for (size_t i = 0; i < n; ++i) out[i] = (uint8_t) mix(gs, i);
    }
}

std::string gen_string(uint64_t gs, int which, int len) {
    std::string s;
    for (int i = 0; i < len; ++i) {
        uint64_t r = mix(gs + (uint64_t) which * 1315423911ULL, (uint64_t) i);
        static const unsigned char odd[] = {0x1f, 0x01, 0x09, 0x0a, 0x1e, 0x7f, 0x80, 0xff, 0x1f, 0x0d};     // any byte but NUL is content (0x1f doubles as the stored terminator's second byte)
        if (r % 11 == 0 && i + 1 < len) { s += "\xc3\xa9"; ++i; }     // a 2-byte UTF-8 char
        else if (r % 17 == 3) s += (char) odd[(r >> 8) % sizeof odd];
        else s += (char) (0x20 + r % 0x5f);
    }
    return s;
}
