// Accounting allocator behind the library's malloc/calloc/realloc/free.
#include "sim.h"
#include <cstdlib>
#include <cstdio>
#include <unordered_map>

extern "C" void race_scope_add(uintptr_t a, uintptr_t b) __attribute__((weak));
extern "C" void race_scope_remove(uintptr_t a, uintptr_t b) __attribute__((weak));
namespace {
struct Blk { size_t size; uint64_t id; int task; };
std::unordered_map<void *, Blk> live;
uint64_t fill_key = 1, n_alloc = 0, n_ref = 0;
size_t live_b = 0;
const size_t MAX_ALLOC = (size_t) 1 << 30;

inline void fill(uint8_t *p, size_t from, size_t to, size_t size) {
    // pattern is a function of (fill key, block size, byte offset) only
    uint64_t k = fill_key * 0x9e3779b97f4a7c15ULL ^ (uint64_t) size * 0xc2b2ae3d27d4eb4fULL;
    size_t i = from;
    for (; i < to && (i & 7); ++i) p[i] = (uint8_t) ((k ^ ((i >> 3) * 0x100000001b3ULL)) >> ((i & 7) * 8)) | 0x80;
    for (; i + 8 <= to; i += 8) { uint64_t v = (k ^ ((i >> 3) * 0x100000001b3ULL)) | 0x8080808080808080ULL; memcpy(p + i, &v, 8); }
    for (; i < to; ++i) p[i] = (uint8_t) ((k ^ ((i >> 3) * 0x100000001b3ULL)) >> ((i & 7) * 8)) | 0x80;
}
}

namespace simalloc {
void reset(uint64_t key) { fill_key = key; n_alloc = 0; n_ref = 0; }
size_t live_blocks() { return live.size(); }
size_t live_bytes() { return live_b; }
uint64_t n_allocs() { return n_alloc; }
uint64_t n_refused() { return n_ref; }
void sweep() { for (auto &kv : live) { if (race_scope_remove) race_scope_remove((uintptr_t) kv.first, (uintptr_t) kv.first + kv.second.size); free(kv.first); } live.clear(); live_b = 0; }
std::string live_summary(int max) {
    std::string s; char buf[96]; int n = 0;
    for (auto &kv : live) { if (n++ >= max) break; snprintf(buf, sizeof buf, "blk#%llu size=%zu task=%d; ", (unsigned long long) kv.second.id, kv.second.size, kv.second.task); s += buf; }
    return s;
}
bool find_block(const void *p, uintptr_t *base, size_t *size, uint64_t *id) {
    // linear scan is fine: few dozen live blocks
    uintptr_t a = (uintptr_t) p;
    for (auto &kv : live) {
        uintptr_t b = (uintptr_t) kv.first;
        if (a >= b && a < b + kv.second.size) { *base = b; *size = kv.second.size; *id = kv.second.id; return true; }
    }
    return false;
}
}

extern "C" {
void *sim_malloc(size_t n) {
    if (n > MAX_ALLOC) { ++n_ref; return nullptr; }
    void *p = malloc(n ? n : 1);
    if (!p) return nullptr;
    fill((uint8_t *) p, 0, n, n);
    live[p] = Blk{n, ++n_alloc, sim::cur_task()}; live_b += n;
    if (race_scope_add) race_scope_add((uintptr_t) p, (uintptr_t) p + n);
    return p;
}
void *sim_calloc(size_t a, size_t b) {
    if (b && a > MAX_ALLOC / b) { ++n_ref; return nullptr; }
    size_t n = a * b;
    void *p = calloc(1, n ? n : 1);
    if (!p) return nullptr;
    live[p] = Blk{n, ++n_alloc, sim::cur_task()}; live_b += n;
    if (race_scope_add) race_scope_add((uintptr_t) p, (uintptr_t) p + n);
    return p;
}
void sim_free(void *p) {
    if (!p) return;
    auto it = live.find(p);
    if (it == live.end()) {
        fprintf(stderr, "SIMALLOC: free of unknown pointer %p\n", p);
        // let the sanitizer / libc classify it
        free(p);
        return;
    }
    if (race_scope_remove) race_scope_remove((uintptr_t) p, (uintptr_t) p + it->second.size);
    live_b -= it->second.size;
    live.erase(it);
    free(p);
}
void *sim_realloc(void *p, size_t n) {
    // always move: a stale pointer into the old block is then a use-after-free in every run, not only when the heap layout forces a move
    if (!p) return sim_malloc(n);
    if (n > MAX_ALLOC) { ++n_ref; return nullptr; }
    auto it = live.find(p);
    if (it == live.end()) { fprintf(stderr, "SIMALLOC: realloc of unknown pointer %p\n", p); return realloc(p, n); }
    size_t old = it->second.size;
    void *q = malloc(n ? n : 1);
    if (!q) return nullptr;
    memcpy(q, p, old < n ? old : n);
    if (n > old) fill((uint8_t *) q, old, n, n);
    if (race_scope_remove) race_scope_remove((uintptr_t) p, (uintptr_t) p + old);
    live_b -= old; live.erase(it);
    free(p);
    live[q] = Blk{n, ++n_alloc, sim::cur_task()}; live_b += n;
    if (race_scope_add) race_scope_add((uintptr_t) q, (uintptr_t) q + n);
    return q;
}
}
