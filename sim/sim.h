// Deterministic simulator core for jetperch/jls – shared declarations.
// One OS thread; cooperative ucontext tasks; virtual clock; in-memory FS;
// accounting allocator. Every choice derives from one seed.
#pragma once
#include <cstdint>
#include <cstddef>
#include <cstring>
#include <string>
#include <vector>
#include <map>
#include <functional>

// ---------------------------------------------------------------- PRNG
static inline uint64_t splitmix64(uint64_t &x) {
    uint64_t z = (x += 0x9e3779b97f4a7c15ULL);
    z = (z ^ (z >> 30)) * 0xbf58476d1ce4e5b9ULL;
    z = (z ^ (z >> 27)) * 0x94d049bb133111ebULL;
    return z ^ (z >> 31);
}
static inline uint64_t fnv1a(const void *p, size_t n, uint64_t h = 0xcbf29ce484222325ULL) {
    const uint8_t *b = (const uint8_t *) p;
    for (size_t i = 0; i < n; ++i) { h ^= b[i]; h *= 0x100000001b3ULL; }
    return h;
}
static inline uint64_t fnv_u64(uint64_t v, uint64_t h) { return fnv1a(&v, 8, h); }

struct Rng {
    uint64_t s[4];
    void seed(uint64_t x) { for (int i = 0; i < 4; ++i) s[i] = splitmix64(x); }
    static inline uint64_t rotl(uint64_t x, int k) { return (x << k) | (x >> (64 - k)); }
    uint64_t next() {
        uint64_t r = rotl(s[1] * 5, 7) * 9, t = s[1] << 17;
        s[2] ^= s[0]; s[3] ^= s[1]; s[1] ^= s[2]; s[0] ^= s[3]; s[2] ^= t; s[3] = rotl(s[3], 45);
        return r;
    }
    uint64_t below(uint64_t n) { return n ? next() % n : 0; }           // [0,n)
    int64_t range(int64_t lo, int64_t hi) { return lo + (int64_t) below((uint64_t) (hi - lo + 1)); } // [lo,hi]
    bool chance(double p) { return (next() >> 11) * (1.0 / 9007199254740992.0) < p; }
    template <class T> const T &pick(const std::vector<T> &v) { return v[below(v.size())]; }
};
static inline Rng rng_derive(uint64_t seed, const char *name) {
    Rng r; r.seed(fnv1a(name, strlen(name), seed ^ 0x5151515151515151ULL)); return r;
}

// ---------------------------------------------------------------- events
enum EvKind : uint8_t {
    EV_OP_INVOKE = 1, EV_OP_RETURN, EV_SWITCH, EV_LOCK, EV_UNLOCK, EV_WAIT, EV_WAKE, EV_SIGNAL,
    EV_CREATE, EV_JOIN, EV_SLEEP, EV_FS, EV_FAULT, EV_MON, EV_TASK_END, EV_NOTE
};
struct Event { uint64_t seq; int64_t t; int16_t task; uint8_t kind; uint8_t sub; int64_t a, b; };

// ---------------------------------------------------------------- scheduler
enum RunStatus { RUN_OK = 0, RUN_DEADLOCK, RUN_HANG, RUN_LIVELOCK };
enum PolicyKind { POL_RUN_TO_BLOCK = 0, POL_UNIFORM, POL_PCT, POL_QUANTUM };
struct Policy { int kind = POL_RUN_TO_BLOCK; double p = 0.1; int d = 2; int q = 8; uint32_t est_len = 2000; };

struct FaultCfg {
    double spurious_wake = 0;     // per cond_wait
    double eintr = 0;             // per nanosleep
    double spurious_full = 0;     // per mrb alloc (used by monitor)
    int latency = 0;              // 0 zero, 1 ssd, 2 hdd, 3 pathological
    struct Stall { int task_kind; uint32_t at_candidate; int64_t ns; };   // task_kind: 0 producer0, 1 producer1, 9 writer
    std::vector<Stall> stalls;
    struct Jump { uint32_t at_candidate; int64_t ns; };
    std::vector<Jump> jumps;
};

namespace sim {
// lifecycle
void reset(uint64_t run_seed, uint64_t fill_key = 1);          // new world: fs, clock, tasks, alloc table, events
void set_policy(const Policy &p);
void set_faults(const FaultCfg &f);
void set_replay_decisions(const std::vector<uint32_t> *d);   // nullptr => record mode
const std::vector<uint32_t> &decisions();
int spawn(std::function<void()> fn, const char *name, int kind);   // returns task id
RunStatus run();                                                 // run until all tasks done or failure
void cleanup();                                                  // abandon tasks, sweep allocations

// inside tasks
int cur_task();
int cur_task_kind();
void yield_point(int kind);
int64_t now_ns();
void charge_sleep(int64_t ns);          // current task sleeps ns of virtual time
uint64_t event(uint8_t kind, uint8_t sub, int64_t a, int64_t b);   // returns seq
uint64_t seq_now();
void set_cur_op(int op);                // per-task "current plan op" (for attribution)
extern volatile int *cur_op_mirror;
int cur_op();
int cur_op_of(int task);
int64_t stalled_ns_of(int task);        // total injected stall charged to a task so far

// results
uint64_t run_hash();
uint64_t sched_hash();
uint64_t n_candidates();
uint64_t n_switches();
int64_t sim_time_elapsed_ns();
const std::vector<Event> &events();
extern uint64_t fault_counts[16];       // indexed by FaultKind
const char *status_name(RunStatus s);
std::string deadlock_info();
void keep_events(bool on);

// step budget (edges of library code)
void budget_set(uint64_t edges);        // 0 = unlimited
uint64_t budget_used();
uint64_t edges_covered();               // distinct guards hit in this process (or one of its forked evaluation children) so far
void note_child_edges(uint64_t n);
void budget_reset_counter();
}

enum FaultKind { F_SPURIOUS_WAKE = 0, F_EINTR, F_STALL, F_CLOCK_JUMP, F_SPURIOUS_FULL, F_LATENCY, F_QUEUE_FULL, F_QUEUE_WRAP,
                 F_QUEUE_RESET, F_DROP, F_TIMEOUT, F_COUNT };
extern const char *fault_names[];

// ---------------------------------------------------------------- SimFS
enum WKind : uint8_t { W_WRITE = 1, W_TRUNC, W_FSYNC, W_OPEN, W_CLOSE };
struct WOp {
    uint8_t kind; uint8_t task; int op;             // plan op index of the issuing task (-1 none)
    uint64_t off; uint64_t len; uint64_t data_pos;  // bytes are in SFile::logbytes[data_pos, data_pos+len)
    uint64_t size_before; uint64_t seq; int64_t t;
};
struct SFile {
    std::string path;
    std::vector<uint8_t> bytes;
    std::vector<WOp> log; std::vector<uint8_t> logbytes;
    bool log_on = false;
    bool latch_ro = false;      // C19: any mutation is recorded in latch_violations
    uint64_t latch_violations = 0;
    uint64_t n_mut = 0, n_fsync = 0, n_open_w = 0;
    int open_fds = 0;
    void *monitor = nullptr;    // write-once monitor (C14), owned by harness
};
namespace simfs {
void reset();
SFile *get(const std::string &path);                       // nullptr if missing
SFile *create(const std::string &path);                    // create/truncate
void put(const std::string &path, const std::vector<uint8_t> &bytes);
void remove(const std::string &path);
int open_fd_count();
// materialise the file after the first k mutating log ops (+ b bytes of the next one if it is a write)
void image(const SFile *f, size_t k_mut, size_t b, std::vector<uint8_t> &out);
size_t n_mutating(const SFile *f);
typedef void (*mut_hook_fn)(SFile *f, const WOp &op, const uint8_t *data);
void set_mut_hook(mut_hook_fn fn);
void set_latency(int profile, uint64_t seed);
extern uint64_t calls;          // total fs calls in this run
}

// ---------------------------------------------------------------- allocator
namespace simalloc {
void reset(uint64_t fill_key);
size_t live_blocks();
size_t live_bytes();
void sweep();                    // free everything still live (after abandoned runs)
uint64_t n_allocs();
uint64_t n_refused();
std::string live_summary(int max);
bool find_block(const void *p, uintptr_t *base, size_t *size, uint64_t *id);   // block containing p
}

// ---------------------------------------------------------------- library log probes
namespace probes {
void reset();
void install();
extern uint64_t count[16];
extern const char *names[16];
}
