// Minimisation: ddmin over ops/reads, then argument simplification, then schedule (decision vector) reduction.
// Every candidate is executed in a forked child so that crashes, sanitizer aborts and hangs are just outcomes.
#include "shrink.h"
#include "checks.h"
#include "gen.h"
#include <unistd.h>
#include <sys/wait.h>
#include <fcntl.h>
#include <csignal>
#include <ctime>
#include <cstdio>
#include <cstdlib>
#include <set>
#include <map>
#include <algorithm>

std::string sanitizer_class_of(const std::string &errpath, const char *fallback, std::string *summary);
namespace {
int g_tier = 0; int g_runs = 0; const int MAX_RUNS = 500;
double g_deadline = 0; unsigned g_child_alarm = 300;      // wall-clock bounds: whole minimisation, one candidate
double wall_now() { struct timespec ts; clock_gettime(CLOCK_MONOTONIC, &ts); return ts.tv_sec + ts.tv_nsec / 1e9; }

struct Focus { int f_op = -3, f_w = -1; int64_t f_b = 0, f_k = -1; std::string alter; };
struct ChildResult { std::set<std::string> classes; std::vector<uint32_t> decisions; std::map<std::string, Focus> focus; };

std::string sanitizer_class(const std::string &errpath, const char *fallback) { return sanitizer_class_of(errpath, fallback, nullptr); }

int g_pipe_fd = -1;
void progress_to_pipe(int f_op, int f_w, int64_t f_b, int64_t f_k, const char *alter) {
    char b[512]; int n = snprintf(b, sizeof b, "P %d %d %lld %lld \t%s\n", f_op, f_w, (long long) f_b, (long long) f_k, alter);
    if (g_pipe_fd >= 0 && n > 0) { ssize_t w = write(g_pipe_fd, b, (size_t) n); (void) w; }
}

ChildResult run_forked(const Plan &P) {
    ChildResult res; ++g_runs;
    int fd[2]; if (pipe(fd)) { perror("pipe"); exit(2); }
    fflush(stdout); fflush(stderr);
    char errpath[64]; snprintf(errpath, sizeof errpath, "/verif/build/tmp/shrink_err_%d.txt", (int) getpid());
    pid_t pid = fork();
    if (pid == 0) {
        close(fd[0]);
        int ef = open(errpath, O_WRONLY | O_CREAT | O_TRUNC, 0644); if (ef >= 0) { dup2(ef, 2); }
        alarm(g_child_alarm);
        g_pipe_fd = fd[1]; g_progress = progress_to_pipe;
        RunOutcome o = run_check(P.prop, P, g_tier);
        std::string s;
        for (auto &v : o.viol) { s += "V " + v.cls + "\n"; s += "F " + std::to_string(v.f_op) + " " + std::to_string(v.f_w) + " " + std::to_string(v.f_b) + " " + std::to_string(v.f_k) + " " + v.cls + "\t" + v.f_alter + "\n"; }
        s += "D";
        for (uint32_t d : o.decisions) s += " " + std::to_string(d);
        s += "\n";
        size_t off = 0; while (off < s.size()) { ssize_t w = write(fd[1], s.data() + off, s.size() - off); if (w <= 0) break; off += (size_t) w; }
        _exit(0);
    }
    close(fd[1]);
    std::string buf; char tmp[4096]; ssize_t n;
    while ((n = read(fd[0], tmp, sizeof tmp)) > 0) buf.append(tmp, (size_t) n);
    close(fd[0]);
    int st = 0; waitpid(pid, &st, 0);
    if (WIFSIGNALED(st)) res.classes.insert(WTERMSIG(st) == SIGALRM ? "wall_timeout" : sanitizer_class(errpath, ("signal" + std::to_string(WTERMSIG(st))).c_str()));
    else if (WIFEXITED(st) && WEXITSTATUS(st) == 77) res.classes.insert(sanitizer_class(errpath, "report"));
    else if (WIFEXITED(st) && WEXITSTATUS(st) != 0) res.classes.insert("exit_" + std::to_string(WEXITSTATUS(st)));
    unlink(errpath);
    size_t pos = 0; Focus last_progress; bool have_progress = false;
    while (pos < buf.size()) {
        size_t e = buf.find('\n', pos); if (e == std::string::npos) e = buf.size();
        std::string line = buf.substr(pos, e - pos); pos = e + 1;
        if (line.size() > 2 && line[0] == 'P') {
            long long b2, k2; int n2 = 0;
            if (sscanf(line.c_str() + 2, "%d %d %lld %lld %n", &last_progress.f_op, &last_progress.f_w, &b2, &k2, &n2) >= 4) { last_progress.f_b = b2; last_progress.f_k = k2; size_t tab = line.find('\t'); last_progress.alter = tab == std::string::npos ? "" : line.substr(tab + 1); have_progress = true; }
            continue;
        }
        if (line.size() > 2 && line[0] == 'V') res.classes.insert(line.substr(2));
        else if (line.size() > 2 && line[0] == 'F') {
            Focus fc; long long b2, k2; int n2 = 0; char clsbuf[256] = {0};
            if (sscanf(line.c_str() + 2, "%d %d %lld %lld %n", &fc.f_op, &fc.f_w, &b2, &k2, &n2) >= 4) {
                fc.f_b = b2; fc.f_k = k2; std::string rest = line.substr(2 + (size_t) n2); size_t tab = rest.find('\t');
                std::string c = tab == std::string::npos ? rest : rest.substr(0, tab); if (tab != std::string::npos) fc.alter = rest.substr(tab + 1);
                (void) clsbuf; if (!res.focus.count(c)) res.focus[c] = fc;
            }
        }
        else if (!line.empty() && line[0] == 'D') { char *p = (char *) line.c_str() + 1; while (*p) { char *q; unsigned long v = strtoul(p, &q, 10); if (q == p) break; res.decisions.push_back((uint32_t) v); p = q; } }
    }
    // a child that died inside an image: the last announced crash point / alteration is the focus of the crash class
    if (have_progress) for (auto &c : res.classes) if (!res.focus.count(c)) res.focus[c] = last_progress;
    return res;
}

bool g_domain = true; Profile g_pf;
bool fails(const Plan &P0, const std::string &cls) {
    if (g_runs >= MAX_RUNS || (g_deadline > 0 && wall_now() > g_deadline)) return false;
    Plan P = P0; P.resolve();
    if (g_domain && !plan_in_domain(P, g_pf)) return false;
    return run_forked(P).classes.count(cls) > 0;
}

// generic ddmin over a vector of ops with a protected predicate
template <class Keep> void ddmin(Plan &P, std::vector<Op> Plan::*field, const std::string &cls, Keep protect) {
    std::vector<Op> &v = P.*field;
    size_t chunk = std::max<size_t>(1, v.size() / 2);
    while (chunk >= 1 && g_runs < MAX_RUNS) {
        bool removed = false;
        for (size_t start = 0; start < v.size() && g_runs < MAX_RUNS;) {
            Plan Q = P; std::vector<Op> &q = Q.*field;
            size_t end = std::min(v.size(), start + chunk);
            std::vector<Op> nv;
            for (size_t i = 0; i < q.size(); ++i) if (i < start || i >= end || protect(q[i])) nv.push_back(q[i]);
            if (nv.size() == q.size()) { start = end; continue; }
            q = nv;
            if (fails(Q, cls)) { P = Q; P.resolve(); removed = true; } else start = end;
        }
        if (chunk == 1 && !removed) break;
        if (!removed) chunk /= 2; else chunk = std::max<size_t>(1, std::min(chunk, (P.*field).size() / 2));
        if (chunk == 0) break;
    }
}

template <class F> bool try_mod(Plan &P, const std::string &cls, F f) {
    Plan Q = P; if (!f(Q)) return false;
    if (fails(Q, cls)) { P = Q; P.resolve(); return true; }
    return false;
}
}

int shrink_main(Plan P, const char *cls_c, int tier) {
    g_tier = tier; std::string cls = cls_c;
    P.resolve(); g_pf = profile_for(P.prop, tier); g_domain = plan_in_domain(P, g_pf);
    size_t ops0 = P.ops.size(), reads0 = P.reads.size(), st0 = P.faults.stalls.size() + P.faults.jumps.size();
    double t_first = wall_now();
    ChildResult first = run_forked(P);
    double first_wall = wall_now() - t_first;
    g_child_alarm = (unsigned) std::min(300.0, std::max(8.0, 6 * first_wall + 5));      // a candidate that runs much longer than the original is not a simplification
    g_deadline = wall_now() + 240;
    if (!first.classes.count(cls)) {
        printf("# NOT_REPRODUCED classes:"); for (auto &c : first.classes) printf(" %s", c.c_str()); printf("\n");
        return 3;
    }
    // 0. engines B / C: narrow to the single crash point / alteration that produced the violation
    {
        bool has_focus = P.focus_k != -1 || !P.focus.empty(); for (auto &o : P.ops) if (o.fw >= 0) has_focus = true;
        auto it = first.focus.find(cls);
        if (!has_focus && it != first.focus.end()) {
            Plan Q = P; const Focus &fc = it->second;
            if (!fc.alter.empty()) Q.focus.push_back(fc.alter);
            else if (fc.f_op >= 0 && fc.f_op < (int) Q.ops.size()) { Q.ops[fc.f_op].fw = fc.f_w; Q.ops[fc.f_op].fb = fc.f_b; }
            else if (fc.f_op == -4) Q.focus_k = -2;
            else if (fc.f_k >= 0) { Q.focus_k = fc.f_k; Q.focus_b = fc.f_b; }
            if ((Q.focus_k != -1 || !Q.focus.empty() || fc.f_op >= 0) && fails(Q, cls)) P = Q;
        }
    }
    // 1. reads, then ops
    ddmin(P, &Plan::reads, cls, [](const Op &) { return false; });
    ddmin(P, &Plan::ops, cls, [](const Op &o) { return o.kind == OP_CLOSE || o.fw >= 0; });
    ddmin(P, &Plan::reads, cls, [](const Op &) { return false; });
    // 2. faults and knobs
    try_mod(P, cls, [](Plan &q) { if (q.faults.stalls.empty() && q.faults.jumps.empty()) return false; q.faults.stalls.clear(); q.faults.jumps.clear(); return true; });
    for (size_t i = 0; i < P.faults.stalls.size();) { if (!try_mod(P, cls, [i](Plan &q) { q.faults.stalls.erase(q.faults.stalls.begin() + (long) i); return true; })) ++i; }
    for (size_t i = 0; i < P.faults.jumps.size();) { if (!try_mod(P, cls, [i](Plan &q) { q.faults.jumps.erase(q.faults.jumps.begin() + (long) i); return true; })) ++i; }
    try_mod(P, cls, [](Plan &q) { if (!q.faults.spurious_wake) return false; q.faults.spurious_wake = 0; return true; });
    try_mod(P, cls, [](Plan &q) { if (!q.faults.eintr) return false; q.faults.eintr = 0; return true; });
    try_mod(P, cls, [](Plan &q) { if (!q.faults.spurious_full) return false; q.faults.spurious_full = 0; return true; });
    try_mod(P, cls, [](Plan &q) { if (!q.faults.latency) return false; q.faults.latency = 0; return true; });
    try_mod(P, cls, [](Plan &q) { if (q.pol.kind == POL_RUN_TO_BLOCK) return false; q.pol.kind = POL_RUN_TO_BLOCK; return true; });
    try_mod(P, cls, [](Plan &q) { if (q.buf_default == 0) return false; q.buf_default = 0; return true; });
    try_mod(P, cls, [](Plan &q) { if (q.variant_flags == 0) return false; q.variant_flags = 0; return true; });
    for (int guard = 0; guard < 8 && P.variant_flags > 1; ++guard) if (!try_mod(P, cls, [](Plan &q) { q.variant_flags = (q.variant_flags * 3) / 4; return true; })) break;
    try_mod(P, cls, [](Plan &q) { if (!q.use_twr || q.prop == "C06" || q.prop == "C07" || q.prop == "C08") return false; q.use_twr = 0; return true; });
    try_mod(P, cls, [](Plan &q) { if (q.producers < 2) return false; q.producers = 1; for (auto &o : q.ops) o.prod = 0; return true; });
    // 3. arguments
    for (size_t i = 0; i < P.ops.size() && g_runs < MAX_RUNS; ++i) {
        int k = P.ops[i].kind;
        if (k == OP_FSR || k == OP_ANNO || k == OP_USER) {
            for (int rounds = 0; rounds < 12; ++rounds) {
                if (!try_mod(P, cls, [i](Plan &q) { if (q.ops[i].n <= 1) return false; q.ops[i].n = q.ops[i].n / 2; return true; })) break;
            }
            for (int rounds = 0; rounds < 8; ++rounds) {
                if (!try_mod(P, cls, [i](Plan &q) { if (q.ops[i].n <= 1) return false; q.ops[i].n -= 1; return true; })) break;
            }
            if (k == OP_FSR) try_mod(P, cls, [i](Plan &q) { if (q.ops[i].g == G_RAMP) return false; q.ops[i].g = G_RAMP; return true; });
            if (k == OP_FSR) try_mod(P, cls, [i](Plan &q) { if (q.ops[i].d == 0) return false; q.ops[i].d = 0; return true; });
            if (k == OP_FSR) try_mod(P, cls, [i](Plan &q) { if (q.ops[i].a == 0) return false; q.ops[i].a = 0; return true; });
        }
        if (k == OP_SIG) {
            for (int f = 1; f <= 6; ++f) try_mod(P, cls, [i, f](Plan &q) { if (q.ops[i].p[f] == 0) return false; q.ops[i].p[f] = 0; return true; });
            for (int f = 1; f <= 4; ++f) try_mod(P, cls, [i, f](Plan &q) { if (q.ops[i].p[f] == 10) return false; q.ops[i].p[f] = 10; return true; });
            try_mod(P, cls, [i](Plan &q) { bool ch = false; for (int s = 0; s < 2; ++s) if (q.ops[i].sl[s] != 1) { q.ops[i].sl[s] = 1; ch = true; } return ch; });
        }
        if (k == OP_SRC) try_mod(P, cls, [i](Plan &q) { bool ch = false; for (int s = 0; s < 5; ++s) if (q.ops[i].sl[s] != 1) { q.ops[i].sl[s] = 1; ch = true; } return ch; });
    }
    for (size_t i = 0; i < P.reads.size() && g_runs < MAX_RUNS; ++i) {
        int k = P.reads[i].kind;
        if (k == RD_FSR || k == RD_FSR_F32 || k == RD_STATS) {
            for (int rounds = 0; rounds < 12; ++rounds)
                if (!try_mod(P, cls, [i](Plan &q) { if (q.reads[i].n <= 1) return false; q.reads[i].n /= 2; return true; })) break;
            try_mod(P, cls, [i](Plan &q) { if (!q.reads[i].cold) return false; q.reads[i].cold = 0; return true; });
        }
    }
    // 4. schedule: switch to an explicit decision vector and reduce it
    if (P.use_twr) {
        ChildResult r = run_forked(P);
        if (r.classes.count(cls) && !r.decisions.empty()) {
            Plan Q = P; Q.decisions = r.decisions; Q.has_decisions = true;
            if (fails(Q, cls)) {
                P = Q;
                // truncate from the end (default after the end: keep running the current task)
                for (size_t len = P.decisions.size() / 2; g_runs < MAX_RUNS; len /= 2) {
                    Plan T = P; T.decisions.resize(len);
                    if (fails(T, cls)) P = T; else break;
                    if (len == 0) break;
                }
                // zero individual non-zero entries
                for (size_t i = 0; i < P.decisions.size() && g_runs < MAX_RUNS; ++i) {
                    if (P.decisions[i] == 0) continue;
                    Plan T = P; T.decisions[i] = 0;
                    if (fails(T, cls)) P = T;
                }
            }
        }
    }
    printf("# minimised class=%s ops %zu->%zu reads %zu->%zu timed_faults %zu->%zu decisions=%zu reruns=%d\n", cls.c_str(), ops0, P.ops.size(), reads0, P.reads.size(), st0,
           P.faults.stalls.size() + P.faults.jumps.size(), P.decisions.size(), g_runs);
    fputs(P.to_text().c_str(), stdout);
    return 0;
}

// class = sanitizer:<error type>:<innermost function of /repo/src on the stack>
std::string sanitizer_class_of(const std::string &errpath, const char *fallback, std::string *summary) {
    std::string txt; { FILE *f = fopen(errpath.c_str(), "r"); if (f) { char b[4096]; size_t n; while ((n = fread(b, 1, sizeof b, f)) > 0) txt.append(b, n); fclose(f); } }
    std::string type = fallback, func = "?";
    size_t p = txt.find("SUMMARY: ");
    if (p != std::string::npos) {
        size_t c = txt.find(": ", p + 9);
        if (c != std::string::npos) { size_t e = txt.find_first_of(" \n", c + 2); type = txt.substr(c + 2, e - c - 2); }
        if (summary) { size_t e = txt.find('\n', p); *summary = txt.substr(p + 9, e == std::string::npos ? std::string::npos : e - p - 9); }
    }
    size_t q = 0;
    while ((q = txt.find(" in ", q)) != std::string::npos) {
        size_t e = txt.find(' ', q + 4);
        static const std::string src_prefix = std::string(getenv("VERIF_REPO") ? getenv("VERIF_REPO") : "/repo") + "/src/";
        if (e != std::string::npos && txt.compare(e + 1, src_prefix.size(), src_prefix) == 0) { func = txt.substr(q + 4, e - q - 4); break; }
        q += 4;
    }
    if (summary && func != "?") *summary += " @ " + func;
    static const char *memk[] = {"heap-buffer-overflow", "heap-use-after-free", "SEGV", "stack-buffer-overflow", "global-buffer-overflow", "use-after-poison", "unknown-crash",
                                 "memcpy-param-overlap", "negative-size-param", "stack-use-after-scope", "dynamic-stack-buffer-overflow"};
    for (const char *k : memk) if (type == k) type = "mem";
    if (type.compare(0, 6, "signal") == 0) type = "mem";
    return "sanitizer:" + type + ":" + func;
}
