// Seeded plan generators (profiles per property).
#pragma once
#include "model.h"

struct Profile {
    std::string prop;
    bool gaps = false, overlaps = false, omit_ops = false, annos = false, utcs = false, users = false, vsr_sigs = false;
    bool reads_fsr = false, reads_stats = false, reads_anno = false, reads_utc = false, reads_user = false, reads_defs = false, reads_conv = false;
    int min_signals = 1, max_signals = 3, max_sources = 2;
    int64_t max_samples = 60000;      // per signal
    int max_fsr_ops = 40;             // per signal
    std::vector<int> types;           // allowed data types (empty = all)
    double twr_share = 0.0;           // share of runs written through the threaded writer
    bool engine_d = false;            // threaded-writer centric program (tiny queue, flushes, 1-2 producers)
    bool cblocks = false;             // constant-block data patterns (omission)
    int max_annos = 0, max_utcs = 0, max_users = 0;
    int64_t max_payload = 200;
    bool small_defs_only = false;     // only small definition parameters (keeps files small for crash/corruption enumeration)
    bool flushes = false;
    bool misuse = false;
    bool wide_ids = false;
    bool subbyte_aligned = false;
    double deep_anno_chance = 0;      // C11 thorough: a program with decimation 2 and > 2^15 annotations on one signal (all 15 index levels, several chunks on the top one)
    bool no_omission = false;         // no omitted blocks (neither on request nor constant <= 8-bit blocks): KF-C03-omitted-blocks-after-crash / KF-C17-copy-omitted-blocks     // keep write lengths / ids of sub-byte types byte aligned (known finding KF-subbyte-unaligned-write)
};

Profile profile_for(const std::string &prop, int tier);     // tier: 0 quick, 1 thorough
Plan gen_plan(const Profile &pf, uint64_t seed);
bool plan_in_domain(const Plan &P, const Profile &pf);   // inputs kept out of the main budget (open known findings) and profile shape
void gen_reads(const Profile &pf, Plan &p, const Model &m, Rng &r);     // append a reader program for the model
// approximate normalisation of definition parameters – used for choosing boundaries only, never by an oracle
struct NormDef { uint32_t spd, sdf, eps, sumdf; };
NormDef approx_norm(int dtype, const uint32_t p[7]);
