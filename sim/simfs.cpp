// In-memory file system behind the library's open/read/write/lseek/fsync/ftruncate/close.
#include "sim.h"
#include <fcntl.h>
#include <unistd.h>
#include <errno.h>
#include <cstdio>
#include <cstdlib>
#include <algorithm>

namespace {
struct Fd { SFile *f; uint64_t pos; int flags; bool open; };
std::map<std::string, SFile *> files;
std::vector<Fd> fds;
const int FD_BASE = 1000;
simfs::mut_hook_fn hook = nullptr;
int latency_profile = 0;
Rng lat_rng;

Fd *getfd(int fd) {
    int i = fd - FD_BASE;
    if (i < 0 || i >= (int) fds.size() || !fds[i].open) return nullptr;
    return &fds[i];
}

void logop(SFile *f, uint8_t kind, uint64_t off, const uint8_t *data, uint64_t len) {
    if (kind == W_WRITE || kind == W_TRUNC) {
        ++f->n_mut;
        if (f->latch_ro) ++f->latch_violations;
    }
    if (kind == W_FSYNC) ++f->n_fsync;
    WOp op;
    op.kind = kind; op.task = (uint8_t) sim::cur_task(); op.op = sim::cur_op();
    op.off = off; op.len = len; op.data_pos = f->logbytes.size(); op.size_before = f->bytes.size();
    op.seq = sim::event(EV_FS, kind, (int64_t) off, (int64_t) len); op.t = sim::now_ns();
    if (hook && (kind == W_WRITE || kind == W_TRUNC)) hook(f, op, data);
    if (f->log_on) {
        if (data && len) f->logbytes.insert(f->logbytes.end(), data, data + len);
        f->log.push_back(op);
    }
}

void charge_latency(int call_kind, uint64_t len) {
    // call_kind: 0 metadata/seek, 1 read, 2 write, 3 fsync
    if (!latency_profile || sim::cur_task() < 0) return;
    int64_t ns = 0;
    switch (latency_profile) {
        case 1: ns = (call_kind == 3) ? 200000 : (call_kind == 0 ? 0 : 5000 + (int64_t) len / 2); break;              // ssd-like
        case 2: ns = (call_kind == 3) ? 12000000 : (call_kind == 0 ? 0 : 100000 + (int64_t) len * 10); break;         // hdd-like
        case 3: ns = (call_kind == 3) ? (int64_t) lat_rng.below(3000000000ULL) : (call_kind == 0 ? 0 : (int64_t) lat_rng.below(400000000ULL)); break; // pathological
    }
    if (ns > 0) { sim::fault_counts[F_LATENCY]++; sim::charge_sleep(ns); }
}
}

namespace simfs {
uint64_t calls = 0;

void reset() {
    for (auto &kv : files) delete kv.second;
    files.clear(); fds.clear(); calls = 0; latency_profile = 0;
}
void set_latency(int profile, uint64_t seed) { latency_profile = profile; lat_rng = rng_derive(seed, "latency"); }
SFile *get(const std::string &path) { auto it = files.find(path); return it == files.end() ? nullptr : it->second; }
SFile *create(const std::string &path) {
    SFile *f = get(path);
    if (!f) { f = new SFile(); f->path = path; files[path] = f; }
    f->bytes.clear();
    return f;
}
void put(const std::string &path, const std::vector<uint8_t> &bytes) { SFile *f = create(path); f->bytes = bytes; }
void remove(const std::string &path) { auto it = files.find(path); if (it != files.end()) { delete it->second; files.erase(it); } }
int open_fd_count() { int n = 0; for (auto &d : fds) n += d.open; return n; }
void set_mut_hook(mut_hook_fn fn) { hook = fn; }

size_t n_mutating(const SFile *f) { size_t n = 0; for (auto &o : f->log) if (o.kind == W_WRITE || o.kind == W_TRUNC) ++n; return n; }

static void apply(const SFile *f, const WOp &o, uint64_t nbytes, std::vector<uint8_t> &out) {
    if (o.kind == W_WRITE) {
        if (o.off + nbytes > out.size()) out.resize(o.off + nbytes, 0);
        if (nbytes) memcpy(out.data() + o.off, f->logbytes.data() + o.data_pos, nbytes);
    } else if (o.kind == W_TRUNC) {
        out.resize(o.off, 0);
    }
}
void image(const SFile *f, size_t k_mut, size_t b, std::vector<uint8_t> &out) {
    out.clear();
    size_t m = 0;
    for (auto &o : f->log) {
        if (o.kind != W_WRITE && o.kind != W_TRUNC) continue;
        if (m < k_mut) { apply(f, o, o.len, out); ++m; continue; }
        if (b && o.kind == W_WRITE) apply(f, o, b < o.len ? b : o.len, out);
        break;
    }
}
}

extern "C" {
int sim_open(const char *path, int flags, ...) {
    ++simfs::calls;
    sim::yield_point(EV_FS);
    SFile *f = simfs::get(path);
    if (!f) {
        if (!(flags & O_CREAT)) { errno = ENOENT; return -1; }
        f = simfs::create(path);
    }
    bool wr = (flags & O_ACCMODE) != O_RDONLY;
    if (wr) { ++f->n_open_w; if (f->latch_ro) ++f->latch_violations; }
    if ((flags & O_TRUNC) && wr) {
        if (!f->bytes.empty()) logop(f, W_TRUNC, 0, nullptr, 0);
        f->bytes.clear();
    }
    logop(f, W_OPEN, (uint64_t) wr, nullptr, 0);
    ++f->open_fds;
    for (size_t i = 0; i < fds.size(); ++i) if (!fds[i].open) { fds[i] = Fd{f, 0, flags, true}; return FD_BASE + (int) i; }
    fds.push_back(Fd{f, 0, flags, true});
    charge_latency(0, 0);
    return FD_BASE + (int) fds.size() - 1;
}
int sim_close(int fd) {
    ++simfs::calls;
    Fd *d = getfd(fd);
    if (!d) { errno = EBADF; return -1; }
    sim::yield_point(EV_FS);
    logop(d->f, W_CLOSE, 0, nullptr, 0);
    --d->f->open_fds;
    d->open = false;
    return 0;
}
ssize_t sim_read(int fd, void *buf, size_t n) {
    ++simfs::calls;
    Fd *d = getfd(fd);
    if (!d) { errno = EBADF; return -1; }
    sim::yield_point(EV_FS);
    uint64_t sz = d->f->bytes.size();
    size_t got = 0;
    if (d->pos < sz) { got = (size_t) std::min<uint64_t>(n, sz - d->pos); memcpy(buf, d->f->bytes.data() + d->pos, got); }
    d->pos += got;
    charge_latency(1, got);
    return (ssize_t) got;
}
ssize_t sim_write(int fd, const void *buf, size_t n) {
    ++simfs::calls;
    Fd *d = getfd(fd);
    if (!d || (d->flags & O_ACCMODE) == O_RDONLY) { errno = EBADF; return -1; }
    sim::yield_point(EV_FS);
    SFile *f = d->f;
    logop(f, W_WRITE, d->pos, (const uint8_t *) buf, n);
    if (d->pos + n > f->bytes.size()) f->bytes.resize(d->pos + n, 0);
    if (n) memcpy(f->bytes.data() + d->pos, buf, n);
    d->pos += n;
    charge_latency(2, n);
    return (ssize_t) n;
}
off_t sim_lseek(int fd, off_t off, int whence) {
    ++simfs::calls;
    Fd *d = getfd(fd);
    if (!d) { errno = EBADF; return -1; }
    int64_t base = whence == SEEK_SET ? 0 : whence == SEEK_CUR ? (int64_t) d->pos : (int64_t) d->f->bytes.size();
    int64_t p = base + off;
    if (p < 0) { errno = EINVAL; return -1; }
    d->pos = (uint64_t) p;
    return (off_t) p;
}
int sim_fsync(int fd) {
    ++simfs::calls;
    Fd *d = getfd(fd);
    if (!d) { errno = EBADF; return -1; }
    sim::yield_point(EV_FS);
    charge_latency(3, 0);
    logop(d->f, W_FSYNC, 0, nullptr, 0);      // logged at completion
    return 0;
}
int sim_ftruncate(int fd, off_t len) {
    ++simfs::calls;
    Fd *d = getfd(fd);
    if (!d || (d->flags & O_ACCMODE) == O_RDONLY) { errno = EBADF; return -1; }
    sim::yield_point(EV_FS);
    logop(d->f, W_TRUNC, (uint64_t) len, nullptr, 0);
    d->f->bytes.resize((size_t) len, 0);
    return 0;
}
}
