// Executors: run plan programs against the real library inside the simulator.
#pragma once
#include "model.h"

struct Violation {
    std::string prop;      // property id
    std::string cls;       // violation class (stable, used for shrinking and known findings)
    std::string detail;    // human readable
    int op = -1;           // plan op / read index it is attributed to
    int f_op = -3, f_w = -1; int64_t f_b = 0, f_k = -1;   // engine B: crash point that produced it
    std::string f_alter;    // engine C: alteration that produced it
};
typedef std::vector<Violation> Violations;
static inline void add_violation(Violations &v, const std::string &prop, const std::string &cls, const std::string &detail, int op = -1) {
    if (v.size() < 8) v.push_back(Violation{prop, cls, detail, op});
}

struct OpRec { int rc = -999; uint64_t seq_invoke = 0, seq_return = 0; int64_t t_invoke = 0, t_return = 0; int64_t stall_ns = 0; bool done = false; };

struct WriterResult {
    std::vector<OpRec> rec;       // per plan op
    int open_rc = -999, close_rc = -999;
    bool closed = false;
    RunStatus status = RUN_OK;
};

// One reader call and its canonicalised output.
struct CallRec {
    int kind = 0; int rc = -999; bool skipped = false;
    std::vector<uint8_t> out;     // canonical bytes of the output (only meaningful bits)
    int64_t n_delivered = 0;
};
struct Dump {
    int open_rc = -999;
    bool repaired = false;        // the open took the repair path (file was opened for writing)
    std::vector<CallRec> calls;   // one per plan.reads entry
    std::vector<CallRec> cold;    // for reads with cold=1: the same call on a fresh reader
    std::vector<CallRec> retry;   // retry_failed: a call that returned an error, issued once more straight away (a caller's natural reaction)
    std::map<int, int64_t> sig_offset;   // sample_id_offset per signal as this reader reports it (asked after the plan's reads)
    uint64_t hash() const;
};

namespace exec {
void apply_knobs(const Plan &p);                               // hook globals (queue size, buffer size)
// writer programs; must be called on the harness (main) context: they spawn tasks and call sim::run()
WriterResult write_sync(const Plan &p, const std::string &path, bool log_writes);
WriterResult write_twr(const Plan &p, const std::string &path, bool log_writes);
// reader program; spawns a task
RunStatus read_dump(const Plan &p, const std::string &path, Dump &d, bool with_cold, bool retry_failed = false);
RunStatus mrb_driver(const Plan &p, std::vector<std::string> &errors, uint64_t *n_ok, uint64_t *n_fail, uint64_t *n_pop);
// copy
RunStatus copy_file(const std::string &src, const std::string &dst, int *rc);
// C10: a seeded sequence of n public raw-layer calls (include/jls/raw.h) - a reading instance on path_r, a writing instance on path_w - with valid
// pointers and buffers of exactly the size the call is told; the first n calls of one PRNG stream, so that a shorter run is a prefix of a longer one
RunStatus raw_driver(const Plan &p, int n_ops, const std::string &path_r, const std::string &path_w, uint64_t *n_ok, uint64_t *n_err);
// build the model from the ops that were accepted (rc == 0)
void build_model(const Plan &p, const std::vector<OpRec> &rec, Model &m);
// canonical serialisation helpers used by oracles
void ser_i64(std::vector<uint8_t> &o, int64_t v);
void ser_bytes(std::vector<uint8_t> &o, const void *p, size_t n);
// tuning: which reader-side signals exist
}
