// Cooperative task scheduler, virtual clock, pthread + clock seams.
#include "sim.h"
#include <ucontext.h>
#include <pthread.h>
#include <time.h>
#include <errno.h>
#include <sys/mman.h>
#include <cstdio>
#include <cstdlib>
#include <algorithm>

#if defined(__has_feature)
#  if __has_feature(address_sanitizer)
#    define SIM_ASAN 1
#  endif
#endif
#ifdef SIM_ASAN
#include <sanitizer/common_interface_defs.h>
#include <sanitizer/asan_interface.h>
#endif

const char *fault_names[] = {"spurious_wake", "eintr", "stall", "clock_jump", "spurious_full", "latency",
                             "queue_full", "queue_wrap", "queue_reset", "drop", "timeout"};

extern "C" void race_on_acquire(void *obj);
extern "C" void race_on_release(void *obj);
extern "C" void race_on_create(int parent, int child);
extern "C" void race_on_join(int joiner, int child);
extern "C" void race_on_task_switch(int task);
extern "C" __attribute__((weak)) void race_on_acquire(void *) {}
extern "C" __attribute__((weak)) void race_on_release(void *) {}
extern "C" __attribute__((weak)) void race_on_create(int, int) {}
extern "C" __attribute__((weak)) void race_on_join(int, int) {}
extern "C" __attribute__((weak)) void race_on_task_switch(int) {}

namespace {

enum TState { T_RUNNABLE, T_BLOCK_MUTEX, T_BLOCK_COND, T_BLOCK_JOIN, T_SLEEP, T_DONE };
const size_t STACK_SZ = 1u << 20;

struct Task {
    int id; int kind; const char *name;
    ucontext_t ctx;
    uint8_t *stack = nullptr;
    TState st = T_RUNNABLE;
    void *wait_obj = nullptr;
    int64_t wake_at = 0;
    std::function<void()> fn;
    void *(*cfn)(void *) = nullptr; void *carg = nullptr; void *cret = nullptr;
    int cur_op = -1;
    int64_t stalled_ns = 0;
    uint32_t my_candidates = 0;
    int prio = 0;
    void *fake_stack = nullptr;
    bool cond_signalled = false;
    int locks_held = 0;
};

struct SMutex { uint32_t magic; int owner; };
const uint32_t MUTEX_MAGIC = 0x51ab1e01;

struct World {
    std::vector<Task *> tasks;
    int cur = -1;
    ucontext_t main_ctx;
    Policy pol; FaultCfg faults;
    Rng rng_sched, rng_fault;
    std::vector<uint32_t> dec; const std::vector<uint32_t> *replay = nullptr; size_t dpos = 0;
    uint64_t candidates = 0, switches = 0;
    int64_t now = 0, epoch = 0, rt_skew = 0;
    std::vector<Event> ev; bool keep_ev = true;
    uint64_t seq = 0, hash = 0, shash = 0;
    RunStatus status = RUN_OK;
    int next_task = -1;          // chosen at a voluntary yield
    std::vector<uint32_t> pct_points;
    uint32_t quantum_left = 0;
    std::string dl_info;
    bool abandon = false;
    uint64_t max_candidates = 4000000; int64_t last_now = 0; uint64_t cand_at_last_advance = 0;
};
World W;
std::vector<uint8_t *> stack_pool;
void *main_fake = nullptr;
const void *main_bottom = nullptr; size_t main_size = 0;

uint8_t *stack_get(uint64_t key) {
    uint8_t *s;
    if (!stack_pool.empty()) { s = stack_pool.back(); stack_pool.pop_back(); }
    else {
        s = (uint8_t *) mmap(nullptr, STACK_SZ, PROT_READ | PROT_WRITE, MAP_PRIVATE | MAP_ANONYMOUS, -1, 0);
        if (s == MAP_FAILED) { perror("mmap stack"); abort(); }
    }
#ifdef SIM_ASAN
    __asan_unpoison_memory_region(s, STACK_SZ);
#endif
    // owned stack garbage: deterministic pattern (only the top 64 KiB, the part jls uses)
    uint64_t *w = (uint64_t *) (s + STACK_SZ - (64u << 10));
    for (size_t i = 0; i < (64u << 10) / 8; ++i) w[i] = 0xa5a5a5a5a5a5a5a5ULL ^ (key * 0x9e3779b97f4a7c15ULL) ^ (i * 0x100000001b3ULL);
    return s;
}

void switch_to_main() {
    Task *t = W.tasks[W.cur];
#ifdef SIM_ASAN
    __sanitizer_start_switch_fiber(t->st == T_DONE ? nullptr : &t->fake_stack, main_bottom, main_size);
#endif
    swapcontext(&t->ctx, &W.main_ctx);
#ifdef SIM_ASAN
    __sanitizer_finish_switch_fiber(t->fake_stack, nullptr, nullptr);
#endif
}

void task_entry(unsigned lo, unsigned hi) {
#ifdef SIM_ASAN
    __sanitizer_finish_switch_fiber(nullptr, &main_bottom, &main_size);
#endif
    Task *t = (Task *) (((uintptr_t) hi << 32) | lo);
    if (t->cfn) t->cret = t->cfn(t->carg); else t->fn();
    t->st = T_DONE;
    sim::event(EV_TASK_END, 0, t->id, 0);
    // wake joiners
    for (Task *o : W.tasks) if (o->st == T_BLOCK_JOIN && o->wait_obj == t) o->st = T_RUNNABLE;
    switch_to_main();
    abort();
}

void runnable_list(std::vector<int> &out, bool cur_first) {
    out.clear();
    bool cf = cur_first && W.cur >= 0 && W.tasks[W.cur]->st == T_RUNNABLE;
    if (cf) out.push_back(W.cur);
    for (Task *t : W.tasks) if (t->st == T_RUNNABLE && !(cf && t->id == W.cur)) out.push_back(t->id);
}

void wake_sleepers() {
    for (Task *t : W.tasks) if (t->st == T_SLEEP && t->wake_at <= W.now) t->st = T_RUNNABLE;
}

// returns index into list
uint32_t decide(const std::vector<int> &list, bool forced) {
    uint32_t n = (uint32_t) list.size();
    uint32_t c = 0;
    if (W.replay) {
        c = (W.dpos < W.replay->size()) ? (*W.replay)[W.dpos] % n : 0;
        ++W.dpos;
    } else {
        switch (W.pol.kind) {
            case POL_RUN_TO_BLOCK: c = forced ? (uint32_t) W.rng_sched.below(n) : 0; break;
            case POL_UNIFORM:
                if (forced) c = (uint32_t) W.rng_sched.below(n);
                else c = W.rng_sched.chance(W.pol.p) ? 1 + (uint32_t) W.rng_sched.below(n - 1) : 0;
                break;
            case POL_QUANTUM:
                if (forced) { c = (uint32_t) W.rng_sched.below(n); W.quantum_left = W.pol.q; }
                else if (W.quantum_left > 0) { --W.quantum_left; c = 0; }
                else { W.quantum_left = W.pol.q; c = 1 + (uint32_t) W.rng_sched.below(n - 1); }
                break;
            case POL_PCT: {
                for (uint32_t pt : W.pct_points) if (pt == W.candidates && W.cur >= 0) {
                    int mn = 0; for (Task *t : W.tasks) mn = std::min(mn, t->prio);
                    W.tasks[W.cur]->prio = mn - 1;
                }
                int best = 0;
                for (uint32_t i = 1; i < n; ++i) if (W.tasks[list[i]]->prio > W.tasks[list[best]]->prio) best = (int) i;
                c = (uint32_t) best;
                break;
            }
        }
    }
    W.dec.push_back(c);
    return c;
}

void apply_candidate_faults(Task *t) {
    // stalls and clock jumps are attached to the n-th candidate of a task kind
    for (auto &s : W.faults.stalls) {
        if (s.task_kind == t->kind && s.at_candidate == t->my_candidates && s.ns > 0) {
            sim::fault_counts[F_STALL]++;
            sim::event(EV_FAULT, F_STALL, t->id, s.ns);
            t->stalled_ns += s.ns;
            int64_t ns = s.ns;
            t->st = T_SLEEP; t->wake_at = W.now + ns;
            switch_to_main();
        }
    }
    for (auto &j : W.faults.jumps) {
        if (j.at_candidate == W.candidates) {
            sim::fault_counts[F_CLOCK_JUMP]++;
            sim::event(EV_FAULT, F_CLOCK_JUMP, 0, j.ns);
            W.rt_skew += j.ns;
        }
    }
}

} // namespace

namespace sim {
uint64_t fault_counts[16];

void keep_events(bool on) { W.keep_ev = on; }

uint64_t event(uint8_t kind, uint8_t sub, int64_t a, int64_t b) {
    Event e{++W.seq, W.now, (int16_t) W.cur, kind, sub, a, b};
    if (W.keep_ev) W.ev.push_back(e);
    uint64_t h = W.hash ? W.hash : 0xcbf29ce484222325ULL;
    h = fnv_u64((uint64_t) e.t, h); h = fnv_u64(((uint64_t) (uint16_t) e.task << 16) | ((uint64_t) kind << 8) | sub, h);
    h = fnv_u64((uint64_t) a, h); h = fnv_u64((uint64_t) b, h);
    W.hash = h;
    return e.seq;
}
uint64_t seq_now() { return W.seq; }

void reset(uint64_t run_seed, uint64_t fill_key) {
    cleanup();
    W.rng_sched = rng_derive(run_seed, "sched");
    W.rng_fault = rng_derive(run_seed, "fault");
    Rng e = rng_derive(run_seed, "epoch");
    W.epoch = 1600000000LL * 1000000000LL + (int64_t) e.below(100000000ULL) * 1000000000LL + (int64_t) e.below(1000000000ULL);
    W.now = W.epoch; W.rt_skew = 0;
    W.last_now = W.now; W.cand_at_last_advance = 0;
    W.cur = -1; W.candidates = W.switches = 0; W.seq = 0; W.hash = 0; W.shash = 0;
    W.ev.clear(); W.dec.clear(); W.replay = nullptr; W.dpos = 0; W.status = RUN_OK; W.next_task = -1;
    W.pol = Policy(); W.faults = FaultCfg(); W.pct_points.clear(); W.quantum_left = 0; W.dl_info.clear(); W.abandon = false;
    memset(fault_counts, 0, sizeof(fault_counts));
    simfs::reset();
    simalloc::reset(fill_key);
    probes::reset();
    budget_reset_counter();
}

void set_policy(const Policy &p) {
    W.pol = p; W.quantum_left = p.q;
    W.pct_points.clear();
    if (p.kind == POL_PCT) for (int i = 0; i + 1 < p.d; ++i) W.pct_points.push_back((uint32_t) W.rng_sched.below(p.est_len ? p.est_len : 1));
}
void set_faults(const FaultCfg &f) { W.faults = f; }
void set_replay_decisions(const std::vector<uint32_t> *d) { W.replay = d; W.dpos = 0; }
const std::vector<uint32_t> &decisions() { return W.dec; }

int spawn(std::function<void()> fn, const char *name, int kind) {
    if (W.cur < 0 && !W.tasks.empty()) {     // between phases: forget finished tasks
        bool all_done = true; for (Task *o : W.tasks) if (o->st != T_DONE) all_done = false;
        if (all_done) { for (Task *o : W.tasks) { if (o->stack) stack_pool.push_back(o->stack); delete o; } W.tasks.clear(); }
    }
    Task *t = new Task();
    t->id = (int) W.tasks.size(); t->kind = kind; t->name = name; t->fn = std::move(fn);
    t->stack = stack_get((uint64_t) t->id + 1);
    t->prio = (int) W.rng_sched.below(1000) + 1;
    getcontext(&t->ctx);
    t->ctx.uc_stack.ss_sp = t->stack; t->ctx.uc_stack.ss_size = STACK_SZ; t->ctx.uc_link = nullptr;
    uintptr_t p = (uintptr_t) t;
    makecontext(&t->ctx, (void (*)()) task_entry, 2, (unsigned) (p & 0xffffffffu), (unsigned) (p >> 32));
    W.tasks.push_back(t);
    if (W.cur >= 0) race_on_create(W.cur, t->id);     // spawned from inside a task: everything the parent did happens before the child
    return t->id;
}

static int spawn_c(void *(*cfn)(void *), void *arg, const char *name, int kind) {
    int id = spawn(nullptr, name, kind);
    W.tasks[id]->cfn = cfn; W.tasks[id]->carg = arg;
    return id;
}

RunStatus run() {
    std::vector<int> list;
    for (;;) {
        if (W.abandon) break;
        wake_sleepers();
        int next = -1;
        if (W.next_task >= 0) { next = W.next_task; W.next_task = -1; }
        else {
            runnable_list(list, false);
            if (list.empty()) {
                int64_t mn = INT64_MAX; bool all_done = true;
                for (Task *t : W.tasks) { if (t->st != T_DONE) all_done = false; if (t->st == T_SLEEP) mn = std::min(mn, t->wake_at); }
                if (all_done) { W.status = RUN_OK; break; }
                if (mn == INT64_MAX) {
                    W.status = RUN_DEADLOCK;
                    char buf[256];
                    for (Task *t : W.tasks) if (t->st != T_DONE) {
                        snprintf(buf, sizeof buf, "task%d(%s) state=%d op=%d; ", t->id, t->name, (int) t->st, t->cur_op);
                        W.dl_info += buf;
                    }
                    break;
                }
                W.now = mn;
                continue;
            }
            next = list.size() == 1 ? list[0] : list[decide(list, true)];
        }
        if (next != W.cur) {
            ++W.switches;
            W.shash = fnv_u64(((uint64_t) next << 32) | (W.candidates & 0xffffffffu), W.shash ? W.shash : 0xcbf29ce484222325ULL);
        }
        W.cur = next;
        race_on_task_switch(next);
        Task *t = W.tasks[next];
#ifdef SIM_ASAN
        __sanitizer_start_switch_fiber(&main_fake, t->stack, STACK_SZ);
#endif
        swapcontext(&W.main_ctx, &t->ctx);
#ifdef SIM_ASAN
        __sanitizer_finish_switch_fiber(main_fake, nullptr, nullptr);
#endif
        if (t->st == T_DONE && t->stack) { stack_pool.push_back(t->stack); t->stack = nullptr; }
    }
    W.cur = -1;
    return W.status;
}

void cleanup() {
    for (Task *t : W.tasks) { if (t->stack) stack_pool.push_back(t->stack); delete t; }
    W.tasks.clear();
    W.cur = -1;
    simalloc::sweep();
}

// called from inside a task when it must never run again (hang budget)
static void abandon_run(RunStatus st) {
    W.status = st; W.abandon = true;
    Task *t = W.tasks[W.cur];
    t->st = T_BLOCK_JOIN; t->wait_obj = nullptr;   // never runnable again
    switch_to_main();
    abort();
}

int wait_task(int id) {
    if (id < 0 || id >= (int) W.tasks.size() || W.cur < 0) return -1;
    Task *target = W.tasks[id];
    while (target->st != T_DONE) { Task *t = W.tasks[W.cur]; t->st = T_BLOCK_JOIN; t->wait_obj = target; switch_to_main(); }
    race_on_join(W.cur, id);
    return 0;
}
int cur_task() { return W.cur; }
int cur_task_kind() { return W.cur >= 0 ? W.tasks[W.cur]->kind : -1; }
int64_t now_ns() { return W.now; }
volatile int *cur_op_mirror = nullptr;      // shared page of an isolating parent: which library call a child was in when it died
void set_cur_op(int op) { if (W.cur >= 0) W.tasks[W.cur]->cur_op = op; if (cur_op_mirror) *cur_op_mirror = op; }
int cur_op() { return W.cur >= 0 ? W.tasks[W.cur]->cur_op : -1; }
int cur_op_of(int task) { return (task >= 0 && task < (int) W.tasks.size()) ? W.tasks[task]->cur_op : -1; }
int64_t stalled_ns_of(int task) { return (task >= 0 && task < (int) W.tasks.size()) ? W.tasks[task]->stalled_ns : 0; }

void yield_point(int kind) {
    (void) kind;
    if (W.cur < 0) return;
    Task *t = W.tasks[W.cur];
    ++W.candidates; ++t->my_candidates;
    // no progress: spinning without virtual time advancing, or still running after 1 simulated hour, or an absurd number of steps
    if (W.now != W.last_now) { W.last_now = W.now; W.cand_at_last_advance = W.candidates; }
    if (W.candidates - W.cand_at_last_advance > 2000000 || W.now - W.epoch > 3600LL * 1000000000LL || W.candidates > 60000000) abandon_run(RUN_LIVELOCK);
    if (!W.faults.stalls.empty() || !W.faults.jumps.empty()) apply_candidate_faults(t);
    wake_sleepers();
    std::vector<int> list;
    runnable_list(list, true);
    if (list.size() < 2) return;
    uint32_t c = decide(list, false);
    if (c == 0) return;
    W.next_task = list[c];
    switch_to_main();
}

bool cur_holds_mutex() { return W.cur >= 0 && W.tasks[W.cur]->locks_held > 0; }
// access-level preemption (race variant): switch to some other runnable task right now
void preempt_now() {
    if (W.cur < 0) return;
    ++W.candidates;
    wake_sleepers();
    std::vector<int> list; runnable_list(list, true);
    if (list.size() < 2) return;
    uint32_t c;
    if (W.replay) { c = (W.dpos < W.replay->size()) ? (*W.replay)[W.dpos] % (uint32_t) list.size() : 0; ++W.dpos; }
    else c = 1 + (uint32_t) W.rng_sched.below(list.size() - 1);
    W.dec.push_back(c);
    if (c == 0) return;
    W.next_task = list[c];
    switch_to_main();
}

void charge_sleep(int64_t ns) {
    if (W.cur < 0 || ns <= 0) { if (ns > 0) W.now += ns; return; }
    Task *t = W.tasks[W.cur];
    t->st = T_SLEEP; t->wake_at = W.now + ns;
    switch_to_main();
}

uint64_t run_hash() { return W.hash; }
uint64_t sched_hash() { return W.shash; }
uint64_t n_candidates() { return W.candidates; }
uint64_t n_switches() { return W.switches; }
int64_t sim_time_elapsed_ns() { return W.now - W.epoch; }
const std::vector<Event> &events() { return W.ev; }
const char *status_name(RunStatus s) {
    switch (s) { case RUN_OK: return "ok"; case RUN_DEADLOCK: return "deadlock"; case RUN_HANG: return "hang"; case RUN_LIVELOCK: return "livelock"; }
    return "?";
}
std::string deadlock_info() { return W.dl_info; }

// used by budget.cpp
void budget_exceeded() {
    if (W.cur >= 0) abandon_run(RUN_HANG);
    fprintf(stderr, "step budget exceeded outside task\n"); abort();
}
} // namespace sim

// ================================================================ pthread seam
extern "C" {

static SMutex *mtx(pthread_mutex_t *m) { return (SMutex *) m; }

int sim_pthread_mutex_init(pthread_mutex_t *m, const pthread_mutexattr_t *) {
    memset(m, 0, sizeof(*m)); mtx(m)->magic = MUTEX_MAGIC; mtx(m)->owner = -1; return 0;
}
int sim_pthread_mutex_destroy(pthread_mutex_t *m) { mtx(m)->magic = 0; return 0; }

static void mutex_acquire(pthread_mutex_t *m) {
    SMutex *s = mtx(m);
    while (s->owner != -1) {
        Task *t = W.tasks[W.cur];
        t->st = T_BLOCK_MUTEX; t->wait_obj = m;
        switch_to_main();
    }
    s->owner = W.cur;
    if (W.cur >= 0) ++W.tasks[W.cur]->locks_held;
    race_on_acquire(m);
}
static void mutex_release(pthread_mutex_t *m) {
    SMutex *s = mtx(m);
    race_on_release(m);
    if (W.cur >= 0 && W.tasks[W.cur]->locks_held > 0) --W.tasks[W.cur]->locks_held;
    s->owner = -1;
    for (Task *o : W.tasks) if (o->st == T_BLOCK_MUTEX && o->wait_obj == m) o->st = T_RUNNABLE;
}

int sim_pthread_mutex_lock(pthread_mutex_t *m) {
    if (W.cur < 0) { mtx(m)->owner = -2; return 0; }
    sim::yield_point(EV_LOCK);
    mutex_acquire(m);
    sim::event(EV_LOCK, 0, (int64_t) (W.cur), 0);
    return 0;
}
int sim_pthread_mutex_unlock(pthread_mutex_t *m) {
    if (W.cur < 0) { mtx(m)->owner = -1; return 0; }
    mutex_release(m);
    sim::event(EV_UNLOCK, 0, (int64_t) (W.cur), 0);
    sim::yield_point(EV_UNLOCK);
    return 0;
}
int sim_pthread_cond_init(pthread_cond_t *c, const pthread_condattr_t *) { memset(c, 0, sizeof(*c)); return 0; }
int sim_pthread_cond_destroy(pthread_cond_t *) { return 0; }
int sim_pthread_cond_wait(pthread_cond_t *c, pthread_mutex_t *m) {
    Task *t = W.tasks[W.cur];
    mutex_release(m);
    if (W.faults.spurious_wake > 0 && W.rng_fault.chance(W.faults.spurious_wake)) {
        sim::fault_counts[F_SPURIOUS_WAKE]++;
        sim::event(EV_FAULT, F_SPURIOUS_WAKE, t->id, 0);
        sim::yield_point(EV_WAIT);
    } else {
        sim::event(EV_WAIT, 0, t->id, 0);
        t->st = T_BLOCK_COND; t->wait_obj = c;
        switch_to_main();
    }
    mutex_acquire(m);
    return 0;
}
int sim_pthread_cond_signal(pthread_cond_t *c) {
    std::vector<Task *> ws;
    for (Task *o : W.tasks) if (o->st == T_BLOCK_COND && o->wait_obj == c) ws.push_back(o);
    if (!ws.empty()) {
        Task *w = ws.size() == 1 ? ws[0] : ws[W.rng_sched.below(ws.size())];
        w->st = T_RUNNABLE;
        sim::event(EV_SIGNAL, 0, w->id, 0);
    } else sim::event(EV_SIGNAL, 1, -1, 0);
    sim::yield_point(EV_SIGNAL);
    return 0;
}
int sim_pthread_create(pthread_t *th, const pthread_attr_t *, void *(*fn)(void *), void *arg) {
    int id = sim::spawn_c(fn, arg, "writer", 9);
    *th = (pthread_t) (1000 + id);
    race_on_create(W.cur, id);
    sim::event(EV_CREATE, 0, id, 0);
    sim::yield_point(EV_CREATE);
    return 0;
}
int sim_pthread_join(pthread_t th, void **ret) {
    int id = (int) th - 1000;
    if (id < 0 || id >= (int) W.tasks.size()) return ESRCH;
    Task *target = W.tasks[id];
    sim::yield_point(EV_JOIN);
    while (target->st != T_DONE) {
        Task *t = W.tasks[W.cur];
        t->st = T_BLOCK_JOIN; t->wait_obj = target;
        switch_to_main();
    }
    race_on_join(W.cur, id);
    sim::event(EV_JOIN, 0, id, 0);
    if (ret) *ret = target->cret;
    return 0;
}

// ================================================================ clock seam
int sim_clock_gettime(clockid_t id, struct timespec *ts) {
    if (W.cur >= 0) { sim::yield_point(EV_NOTE); W.now += 100; }
    int64_t t = W.now + (id == CLOCK_REALTIME ? W.rt_skew : 0);
    ts->tv_sec = t / 1000000000LL; ts->tv_nsec = t % 1000000000LL;
    return 0;
}
int sim_nanosleep(const struct timespec *req, struct timespec *rem) {
    int64_t ns = (int64_t) req->tv_sec * 1000000000LL + req->tv_nsec;
    if (W.cur < 0) { W.now += ns; return 0; }
    if (W.faults.eintr > 0 && ns > 1000 && W.rng_fault.chance(W.faults.eintr)) {
        int64_t part = (int64_t) W.rng_fault.below((uint64_t) ns);
        sim::fault_counts[F_EINTR]++;
        sim::event(EV_FAULT, F_EINTR, part, ns);
        sim::charge_sleep(part);
        if (rem) { int64_t r = ns - part; rem->tv_sec = r / 1000000000LL; rem->tv_nsec = r % 1000000000LL; }
        errno = EINTR;
        return -1;
    }
    sim::event(EV_SLEEP, 0, ns, 0);
    sim::charge_sleep(ns);
    return 0;
}
} // extern "C"
