// jlssim: worker process. Sub-commands:
//   run <prop> --base <VERIF_SEED> --start i --count n [--tier quick|thorough] [--deadline-s s]
//   gen <prop> <run_seed> [--tier t]           print the plan of a seed
//   replay <planfile> [--tier t]               execute a plan file, print the outcome line
//   shrink <planfile> <class> [--tier t]       minimise while the same violation class persists; prints the plan
#include "checks.h"
#include "shrink.h"
#include <cstdio>
#include <cstdlib>
#include <csignal>
#include <ctime>
#include <unistd.h>
#include <fstream>
#include <sstream>
#include <set>

extern "C" __attribute__((used)) const char *__asan_default_options() {
    return "exitcode=77:detect_leaks=0:abort_on_error=0:detect_stack_use_after_return=0:allocator_may_return_null=1:handle_segv=1:print_summary=1";
}
extern "C" __attribute__((used)) const char *__ubsan_default_options() { return "halt_on_error=1:exitcode=77:print_stacktrace=1"; }

#if defined(__has_feature)
#if __has_feature(address_sanitizer)
#define JLSSIM_HAVE_ASAN 1
#include <sanitizer/common_interface_defs.h>
// -fsanitize=bounds (local-bounds) reports by trapping: turn the SIGILL into a report that reads like the others
static void on_trap(int, siginfo_t *si, void *) {
    static char where[512];
    __sanitizer_symbolize_pc(si->si_addr, "%f %s:%l", where, sizeof where);
    fprintf(stderr, "==%d==ERROR: AddressSanitizer: bounds-trap (out-of-bounds access caught by -fsanitize=bounds) at pc %p\n    #0 %p in %s\n", (int) getpid(), si->si_addr, si->si_addr, where);
    __sanitizer_print_stack_trace();
    fprintf(stderr, "SUMMARY: AddressSanitizer: bounds-trap %s\n", where);
    _exit(77);
}
#endif
#endif

static std::string json_escape(const std::string &s) {
    std::string o;
    for (unsigned char c : s) {
        if (c == '"' || c == '\\') { o += '\\'; o += (char) c; }
        else if (c < 0x20 || c >= 0x7f) { char b[8]; snprintf(b, sizeof b, "\\u%04x", c); o += b; }
        else o += (char) c;
    }
    return o;
}

static uint64_t run_seed_of(uint64_t base, uint64_t idx, const std::string &prop) {
    uint64_t x = base * 0x9e3779b97f4a7c15ULL + idx;
    uint64_t s = splitmix64(x);
    s ^= fnv1a(prop.data(), prop.size());
    return splitmix64(s) >> 1;      // keep within 63 bits for JSON consumers
}

static std::string outcome_json(const std::string &prop, uint64_t idx, uint64_t seed, const RunOutcome &o, double wall_ms) {
    std::string s; char b[256];
    snprintf(b, sizeof b, "{\"i\":%llu,\"seed\":%llu,\"prop\":\"%s\",\"hash\":\"%016llx\",\"shash\":\"%016llx\",\"nontrivial\":%s,\"evals\":%llu,\"nt_units\":%llu,\"sim_ns\":%lld,\"wall_ms\":%.3f,",
             (unsigned long long) idx, (unsigned long long) seed, prop.c_str(), (unsigned long long) o.hash, (unsigned long long) o.sched_hash, o.nontrivial ? "true" : "false",
             (unsigned long long) o.evaluations, (unsigned long long) o.nontrivial_units, (long long) o.sim_ns, wall_ms);
    s += b;
    s += "\"viol\":[";
    for (size_t i = 0; i < o.viol.size(); ++i) {
        if (i) s += ",";
        s += "{\"prop\":\"" + o.viol[i].prop + "\",\"cls\":\"" + json_escape(o.viol[i].cls) + "\",\"detail\":\"" + json_escape(o.viol[i].detail) + "\",\"op\":" + std::to_string(o.viol[i].op) + ",\"f_op\":" + std::to_string(o.viol[i].f_op) + ",\"f_w\":" + std::to_string(o.viol[i].f_w) + ",\"f_b\":" + std::to_string(o.viol[i].f_b) + ",\"f_k\":" + std::to_string(o.viol[i].f_k) + ",\"f_alter\":\"" + json_escape(o.viol[i].f_alter) + "\"}";
    }
    s += "],\"ctr\":{";
    bool first = true;
    for (auto &kv : o.ctr) { if (!first) s += ","; first = false; s += "\"" + kv.first + "\":" + std::to_string(kv.second); }
    s += "},\"units\":[";
    for (size_t i = 0; i < o.unit_hashes.size() && i < 4096; ++i) { if (i) s += ","; snprintf(b, sizeof b, "\"%llx\"", (unsigned long long) o.unit_hashes[i]); s += b; }
    s += "],\"sample\":\"" + json_escape(o.sample) + "\"}";
    return s;
}

static double now_ms() { struct timespec ts; clock_gettime(CLOCK_MONOTONIC, &ts); return ts.tv_sec * 1e3 + ts.tv_nsec / 1e6; }

static bool read_file(const std::string &path, std::string &out) {
    std::ifstream f(path); if (!f) return false; std::stringstream ss; ss << f.rdbuf(); out = ss.str(); return true;
}

static const char *arg_val(int argc, char **argv, const char *name, const char *def) {
    for (int i = 0; i + 1 < argc; ++i) if (!strcmp(argv[i], name)) return argv[i + 1];
    return def;
}

int main(int argc, char **argv) {
    setvbuf(stdout, nullptr, _IOLBF, 0);
#ifdef JLSSIM_HAVE_ASAN
    { struct sigaction sa; memset(&sa, 0, sizeof sa); sa.sa_sigaction = on_trap; sa.sa_flags = SA_SIGINFO | SA_NODEFER; sigaction(SIGILL, &sa, nullptr); }
#endif
    if (argc < 2) { fprintf(stderr, "usage: jlssim run|gen|replay|shrink ...\n"); return 2; }
    std::string cmd = argv[1];
    int tier = !strcmp(arg_val(argc, argv, "--tier", "quick"), "thorough") ? 1 : 0;
    if (cmd == "run") {
        if (argc < 3) return 2;
        std::string prop = argv[2];
        uint64_t base = strtoull(arg_val(argc, argv, "--base", "1"), nullptr, 0);
        uint64_t start = strtoull(arg_val(argc, argv, "--start", "0"), nullptr, 0);
        uint64_t count = strtoull(arg_val(argc, argv, "--count", "100"), nullptr, 0);
        uint64_t stride = strtoull(arg_val(argc, argv, "--stride", "1"), nullptr, 0);
        double deadline = atof(arg_val(argc, argv, "--deadline-s", "0"));
        const char *cur = arg_val(argc, argv, "--current-file", nullptr);
        double t0 = now_ms();
        if (deadline > 0) g_enumeration_deadline = t0 / 1e3 + deadline + 25;     // a crash / corruption enumeration still running 25 s past the budget stops early
        Profile pf = profile_for(prop, tier);
        for (uint64_t k = 0; k < count; ++k) {
            uint64_t idx = start + k * stride;
            if (deadline > 0 && (now_ms() - t0) / 1e3 > deadline) break;
            uint64_t seed = run_seed_of(base, idx, prop);
            Plan P = gen_plan(pf, seed);
            if (cur) { FILE *f = fopen(cur, "w"); if (f) { fprintf(f, "# idx=%llu\n%s", (unsigned long long) idx, P.to_text().c_str()); fclose(f); } }
            printf("{\"start\":%llu,\"seed\":%llu}\n", (unsigned long long) idx, (unsigned long long) seed);
            double t1 = now_ms();
            RunOutcome o = run_check(prop, P, tier);
            printf("%s\n", outcome_json(prop, idx, seed, o, now_ms() - t1).c_str());
        }
        printf("{\"done\":true,\"edges\":%llu}\n", (unsigned long long) sim::edges_covered());
        return 0;
    }
    if (cmd == "gen") {
        if (argc < 4) return 2;
        Profile pf = profile_for(argv[2], tier);
        Plan P = gen_plan(pf, strtoull(argv[3], nullptr, 0));
        fputs(P.to_text().c_str(), stdout);
        return 0;
    }
    if (cmd == "replay" || cmd == "shrink") {
        if (argc < 3) return 2;
        std::string text, err;
        if (!read_file(argv[2], text)) { fprintf(stderr, "cannot read %s\n", argv[2]); return 2; }
        Plan P;
        if (!P.from_text(text, &err)) { fprintf(stderr, "bad plan: %s\n", err.c_str()); return 2; }
        P.resolve();
        if (cmd == "replay" && arg_val(argc, argv, "--dump", nullptr)) {
            // debugging aid: run only the writer program and store the resulting file on the real disk
            sim::reset(P.seed, P.fill_key); probes::install();
            WriterResult w = P.use_twr ? exec::write_twr(P, "/sim/a.jls", false) : exec::write_sync(P, "/sim/a.jls", false);
            SFile *f = simfs::get("/sim/a.jls");
            FILE *o = fopen(arg_val(argc, argv, "--dump", ""), "wb");
            if (f && o) { fwrite(f->bytes.data(), 1, f->bytes.size(), o); fclose(o); }
            printf("status=%s open_rc=%d close_rc=%d bytes=%zu\n", sim::status_name(w.status), w.open_rc, w.close_rc, f ? f->bytes.size() : 0);
            return 0;
        }
        if (cmd == "replay") {
            double t1 = now_ms();
            RunOutcome o = run_check(P.prop, P, tier);
            printf("%s\n", outcome_json(P.prop, 0, P.seed, o, now_ms() - t1).c_str());
            return o.viol.empty() ? 0 : 1;
        }
        if (argc < 4) return 2;
        return shrink_main(P, argv[3], tier);
    }
    return 2;
}
