// Reference model: trivially simple containers describing what was written.
#pragma once
#include "plan.h"
#include <cmath>

struct MAnno { int64_t t; int at, st, grp; uint32_t ybits; std::vector<uint8_t> data; };
struct MUtc { int64_t id, utc; };
struct MUser { int meta, st; std::vector<uint8_t> data; };
struct MSource { int id = 0; std::string s[5]; bool null_[5] = {false, false, false, false, false}; };
struct MSignal {
    int id = 0, src = 0, sigtype = 0, dtype = DT_F32;
    uint32_t p[7] = {0, 0, 0, 0, 0, 0, 0};          // as given to the writer (not normalised)
    std::string name, units;
    bool has_data = false;
    int64_t first_id = 0, next_id = 0;
    std::vector<uint8_t> bits;                   // packed like JLS packs (LSB first for sub-byte types)
    std::vector<std::pair<int64_t, int64_t>> gaps;   // [start,end) in 0-based sample index: filled samples
    std::vector<MAnno> annos;
    std::vector<MUtc> utcs;
    std::vector<std::pair<int64_t, int>> omit_events;   // (0-based sample count at the time, enable)
    std::vector<std::pair<int64_t, int64_t>> omitted;   // [start,end) 0-based: blocks whose level-0 data is not stored (learnt from the file's level-1 index by the independent decoder)
    bool in_omitted(int64_t idx) const { for (auto &g : omitted) if (idx >= g.first && idx < g.second) return true; return false; }
    int64_t length() const { return has_data ? next_id - first_id : 0; }
    uint64_t raw(int64_t idx) const;             // raw bits of sample idx (0-based)
    long double value(int64_t idx) const;        // numeric value
    bool in_gap(int64_t idx) const;
    void window(int64_t start, int64_t n, std::vector<uint8_t> &out) const;   // packed, bit 0 = sample start
};
struct Model {
    std::map<int, MSource> sources;
    std::map<int, MSignal> signals;
    std::vector<MUser> users;
    Model();
    // apply a writer op the library accepted (rc == 0)
    void apply(const Op &o);
    // expected outcome class for conforming programs: 0 = must succeed, 1 = must be rejected, 2 = either
    int expect(const Op &o) const;
};

// packed bit helpers
void bits_append(std::vector<uint8_t> &dst, uint64_t dst_n, const uint8_t *src, uint64_t src_off, uint64_t count, int bits);
static inline uint64_t bits_get(const uint8_t *p, uint64_t idx, int bits) {
    if (bits >= 8) { uint64_t v = 0; memcpy(&v, p + idx * (bits / 8), bits / 8); return v; }
    uint64_t bit = idx * bits;
    return (p[bit >> 3] >> (bit & 7)) & ((1u << bits) - 1);
}
long double raw_to_value(int dtype, uint64_t raw);
void op_payload(const Op &o, std::vector<uint8_t> &out);      // the payload bytes the harness passes for this op
