// Per-property checks: plan -> execution under the simulator -> violations + reach counters.
#pragma once
#include "exec.h"
#include "gen.h"
#include <map>

struct RunOutcome {
    Violations viol;
    uint64_t hash = 0, sched_hash = 0;
    bool nontrivial = false;
    uint64_t evaluations = 1;            // images / altered files for engines B / C, else 1
    uint64_t nontrivial_units = 0;       // for B/C: distinct non-trivial images
    std::map<std::string, uint64_t> ctr; // reach counters
    std::vector<uint64_t> unit_hashes;   // distinct state hashes (images, schedules)
    int64_t sim_ns = 0;
    std::vector<uint32_t> decisions;     // schedule decisions taken (engine D)
    std::string sample;                  // short description of the case
};

RunOutcome run_check(const std::string &prop, const Plan &P, int tier);
// wall-clock second (CLOCK_MONOTONIC) after which the image enumerations of engines B / C stop early (0 = never; replay and shrink never cut).
// Only the amount of work is affected: every evaluated image is judged exactly as before, and the run hash covers the parent's event log only.
extern double g_enumeration_deadline;
bool check_known(const std::string &prop);
extern const char *all_checks[];
// progress hook (shrinker child): called before each crash image / altered image is evaluated
extern void (*g_progress)(int f_op, int f_w, int64_t f_b, int64_t f_k, const char *alter);
