#include "checks.h"
#include "oracles.h"
#include "mon.h"
#include "specdec.h"
#include <cstdio>
#include <cstdarg>
#include <algorithm>
#include <set>

const char *all_checks[] = {"C01", "C02", "C03", "C04", "C05", "C06", "C07", "C08", "C09", "C10", "C11", "C12", "C13", "C14", "C15", "C17", "C19", nullptr};
bool check_known(const std::string &prop) { for (int i = 0; all_checks[i]; ++i) if (prop == all_checks[i]) return true; return false; }

static std::string fmt(const char *f, ...) __attribute__((format(printf, 1, 2)));
static std::string fmt(const char *f, ...) { char b[640]; va_list ap; va_start(ap, f); vsnprintf(b, sizeof b, f, ap); va_end(ap); return b; }

const uint64_t STEP_BUDGET = 400000000ULL;
static const char *PATH_A = "/sim/a.jls";

struct AResult {
    WriterResult wr; Model m; Dump d; RunStatus rd_status = RUN_OK;
    bool writer_ok = false;
    std::vector<uint8_t> closed_bytes;
};

static void finish_outcome(RunOutcome &out) {
    out.decisions = sim::decisions();
    out.hash = sim::run_hash(); out.sched_hash = sim::sched_hash(); out.sim_ns = sim::sim_time_elapsed_ns();
    out.ctr["candidates"] += sim::n_candidates(); out.ctr["switches"] += sim::n_switches();
    out.ctr["fs_calls"] += simfs::calls; out.ctr["allocs"] += simalloc::n_allocs();
    for (int i = 0; i < F_COUNT; ++i) if (sim::fault_counts[i]) out.ctr[std::string("fault_") + fault_names[i]] += sim::fault_counts[i];
    for (int i = 0; i < 16; ++i) if (probes::count[i]) out.ctr[std::string("probe_") + probes::names[i]] += probes::count[i];
}

static void setup_world(const Plan &P) {
    sim::reset(P.seed, P.fill_key);
    sim::budget_set(STEP_BUDGET);
    sim::set_policy(P.pol);
    sim::set_faults(P.faults);
    if (P.has_decisions) sim::set_replay_decisions(&P.decisions);
    simfs::set_latency(P.faults.latency, P.seed);
    probes::install();
}

// write the program (sync or threaded), build the model from accepted ops, check acceptance against the conforming expectation
static bool write_phase(const Plan &P, const std::string &prop, AResult &A, RunOutcome &out, bool log_writes, bool conforming) {
    A.wr = P.use_twr ? exec::write_twr(P, PATH_A, log_writes) : exec::write_sync(P, PATH_A, log_writes);
    if (A.wr.status != RUN_OK) {
        add_violation(out.viol, prop, std::string("writer_") + sim::status_name(A.wr.status), fmt("writer program did not finish: %s %s", sim::status_name(A.wr.status), sim::deadlock_info().c_str()));
        return false;
    }
    if (A.wr.open_rc) { add_violation(out.viol, prop, "writer_open_failed", fmt("rc=%d", A.wr.open_rc)); return false; }
    for (size_t i = 0; i < P.ops.size(); ++i) {
        const Op &o = P.ops[i]; const OpRec &r = A.wr.rec[i];
        if (!r.done) continue;
        int e = A.m.expect(o);
        if (r.rc == 0) {
            if (e == 1 && conforming) add_violation(out.viol, prop, "accepted_invalid_call", fmt("op %zu '%s' returned 0", i, o.to_text().c_str()), (int) i);
            A.m.apply(o);
        } else if (e == 0 && conforming && !(P.use_twr && (o.kind != OP_SRC && o.kind != OP_SIG))) {
            add_violation(out.viol, prop, "rejected_valid_call", fmt("op %zu '%s' returned %d", i, o.to_text().c_str(), r.rc), (int) i);
        }
    }
    A.writer_ok = true;
    SFile *f = simfs::get(PATH_A);
    if (f) A.closed_bytes = f->bytes;
    return true;
}

static bool read_phase(const Plan &P, const std::string &prop, AResult &A, RunOutcome &out, bool with_cold) {
    SFile *f = simfs::get(PATH_A);
    if (f) f->latch_ro = true;
    A.rd_status = exec::read_dump(P, PATH_A, A.d, with_cold);
    if (A.rd_status != RUN_OK) {
        add_violation(out.viol, prop, std::string("reader_") + sim::status_name(A.rd_status), fmt("reader program did not finish (%s) at read op %d", sim::status_name(A.rd_status), sim::cur_op_of(0)));
        return false;
    }
    return true;
}

static void count_ops(const Plan &P, RunOutcome &out) {
    for (auto &o : P.ops) out.ctr[std::string("op_") + op_names[o.kind]]++;
    for (auto &o : P.reads) out.ctr[std::string("rd_") + op_names[o.kind]]++;
    if (P.use_twr) out.ctr["runs_threaded_writer"]++; else out.ctr["runs_sync_writer"]++;
}

// ------------------------------------------------------------------ engine A: fault-free store round trip
static RunOutcome check_roundtrip(const std::string &prop, const Plan &P) {
    RunOutcome out; AResult A;
    setup_world(P);
    count_ops(P, out);
    if (write_phase(P, prop, A, out, false, true) && read_phase(P, prop, A, out, true)) {
        oracle::check_dump(prop, A.m, P, A.d, out.viol, true);
        // per-property non-triviality
        int64_t total = 0; size_t nreads = 0; bool multi_block = false, any_gap = false, any_omit = false;
        for (auto &kv : A.m.signals) { total += kv.second.length(); NormDef nd = approx_norm(kv.second.dtype, kv.second.p); if (kv.second.length() > nd.spd) multi_block = true; if (!kv.second.gaps.empty()) any_gap = true; if (!kv.second.omit_events.empty()) any_omit = true; }
        for (auto &c : A.d.calls) if (!c.skipped && c.rc == 0) ++nreads;
        size_t na = 0, nu = 0; for (auto &kv : A.m.signals) { na += kv.second.annos.size(); nu += kv.second.utcs.size(); }
        if (prop == "C01") out.nontrivial = multi_block && nreads >= 3;
        else if (prop == "C02") out.nontrivial = multi_block && nreads >= 2;
        else if (prop == "C09") out.nontrivial = any_gap || out.ctr.count("probe_fsr_dup");
        else if (prop == "C11") out.nontrivial = na >= 3;
        else if (prop == "C12") out.nontrivial = nu >= 2;
        else if (prop == "C13") out.nontrivial = A.m.signals.size() >= 2 && nreads >= 2;
        else out.nontrivial = total > 0;
        (void) any_omit;
        out.ctr["samples_written"] += (uint64_t) total;
        out.sample = fmt("%zu signals, %lld samples, %zu ops, %zu reads%s", A.m.signals.size() - 1, (long long) total, P.ops.size(), P.reads.size(), P.use_twr ? ", threaded writer" : "");
        SFile *f = simfs::get(PATH_A);
        if (f && f->latch_violations) out.ctr["c19_latch_violations"] += f->latch_violations;
    }
    finish_outcome(out);
    sim::cleanup();
    return out;
}

// ------------------------------------------------------------------ C14: write-once monitor over the complete backend write history
struct WoChunk { uint64_t off; uint32_t plen; uint8_t tag; uint64_t payload_off, end; };
static void write_once_monitor(const SFile *f, const std::string &prop, Violations &v, RunOutcome &out) {
    std::vector<uint8_t> img; std::map<uint64_t, WoChunk> chunks; uint64_t parse_pos = 32; bool in_payload = false; WoChunk cur{};
    uint64_t n_inplace_hdr = 0, n_inplace_head = 0, n_filehdr = 0, n_append = 0; size_t opi = 0;
    auto parse = [&]() {
        for (;;) {
            if (!in_payload) {
                if (img.size() < parse_pos + 32) return;
                const uint8_t *h = img.data() + parse_pos;
                cur.off = parse_pos; memcpy(&cur.plen, h + 20, 4); cur.tag = h[16]; cur.payload_off = parse_pos + 32;
                uint64_t disk = cur.plen ? (uint64_t) cur.plen + ((8 - ((cur.plen + 4) & 7)) & 7) + 4 : 0;
                cur.end = cur.payload_off + disk;
                if (specdec::crc32c(h, 28) != *(const uint32_t *) (h + 28)) { add_violation(v, prop, "appended_header_bad_crc", fmt("appended chunk header @%llu has no valid crc (log op %zu)", (unsigned long long) parse_pos, opi)); parse_pos = UINT64_MAX / 2; return; }
                chunks[cur.off] = cur; in_payload = true;
            }
            if (img.size() < cur.end) return;
            parse_pos = cur.end; in_payload = false;
        }
    };
    for (opi = 0; opi < f->log.size(); ++opi) {
        const WOp &o = f->log[opi];
        if (o.kind == W_TRUNC) {
            if (!(o.off == 0 && img.empty())) add_violation(v, prop, "truncate", fmt("ftruncate/O_TRUNC to %llu while the file holds %zu bytes (log op %zu, plan op %d)", (unsigned long long) o.off, img.size(), opi, o.op), o.op);
            img.resize(o.off);
            continue;
        }
        if (o.kind != W_WRITE) continue;
        const uint8_t *data = f->logbytes.data() + o.data_pos;
        if (o.off == img.size()) { img.insert(img.end(), data, data + o.len); ++n_append; parse(); continue; }
        if (o.off > img.size()) { add_violation(v, prop, "write_beyond_eof", fmt("write of %llu bytes at %llu beyond the end %zu (log op %zu, plan op %d)", (unsigned long long) o.len, (unsigned long long) o.off, img.size(), opi, o.op), o.op); img.resize(o.off + o.len, 0); memcpy(img.data() + o.off, data, o.len); continue; }
        if (o.off + o.len > img.size()) {
            // straddles the end: partly in place
            add_violation(v, prop, "write_straddles_eof", fmt("write [%llu,+%llu) overlaps existing bytes and extends the file (size %zu; log op %zu, plan op %d)", (unsigned long long) o.off, (unsigned long long) o.len, img.size(), opi, o.op), o.op);
            img.resize(o.off + o.len, 0); memcpy(img.data() + o.off, data, o.len); continue;
        }
        // ---- in place
        bool ok = false; std::string why;
        auto it = chunks.find(o.off);
        if (o.off == 0 && o.len == 32) { ok = true; ++n_filehdr; }
        else if (o.len == 32 && it != chunks.end()) {
            if (memcmp(img.data() + o.off + 16, data + 16, 12) != 0) why = "chunk header rewrite changes tag/meta/payload lengths";
            else if (specdec::crc32c(data, 28) != *(const uint32_t *) (data + 28)) why = "chunk header rewrite carries a bad crc";
            else { ok = true; ++n_inplace_hdr; }
        } else {
            // head table payload or its footer
            for (auto &kv : chunks) {
                const WoChunk &c = kv.second;
                bool is_head = (c.tag & 0xe0) == 0x20 && (c.tag & 7) == 1 && c.plen == 128;
                if (!is_head || o.off < c.payload_off || o.off + o.len > c.end) continue;
                if (o.off == c.payload_off && o.len == 128) {
                    ok = true;
                    for (int k = 0; k < 16; ++k) {
                        uint64_t a, b2; memcpy(&a, img.data() + o.off + 8 * k, 8); memcpy(&b2, data + 8 * k, 8);
                        if (a == b2) continue;
                        if (a != 0) { ok = false; why = fmt("head table entry %d changes from %llu to %llu", k, (unsigned long long) a, (unsigned long long) b2); break; }
                        if (!chunks.count(b2)) { ok = false; why = fmt("head table entry %d set to %llu which is not a known chunk", k, (unsigned long long) b2); break; }
                    }
                    if (ok) ++n_inplace_head;
                } else if (o.off == c.payload_off + 128 && o.off + o.len == c.end) { ok = true; }
                else why = "partial write inside a head table";
                break;
            }
            if (!ok && why.empty()) why = "in-place write to stored chunk content";
        }
        if (!ok) add_violation(v, prop, "stored_content_rewritten", fmt("in-place write [%llu,+%llu): %s (log op %zu, plan op %d)", (unsigned long long) o.off, (unsigned long long) o.len, why.c_str(), opi, o.op), o.op);
        memcpy(img.data() + o.off, data, o.len);
    }
    out.ctr["wo_appends"] += n_append; out.ctr["wo_inplace_header"] += n_inplace_hdr; out.ctr["wo_inplace_head_table"] += n_inplace_head; out.ctr["wo_file_header"] += n_filehdr; out.ctr["wo_chunks"] += chunks.size();
    if (n_inplace_hdr + n_inplace_head > 0) out.nontrivial = true;
    if (img != f->bytes) add_violation(v, prop, "monitor_image_mismatch", "harness: replayed write log differs from the file (monitor error)");
}

static void decoder_check(const std::string &prop, const std::vector<uint8_t> &bytes, const Model *m, const char *producer, Violations &v, RunOutcome &out, bool check_summaries = true) {
    specdec::Decoded d; specdec::decode(bytes, d, true);
    for (auto &e : d.errors) { size_t bar = e.find('|'); add_violation(v, prop, "format_" + e.substr(0, bar), std::string(producer) + ": " + e.substr(bar + 1)); }
    if (m && d.errors.empty()) {
        std::vector<std::string> ce; specdec::ContentOpts o; o.check_summaries = check_summaries;
        specdec::compare_with_model(bytes, d, *m, o, ce);
        for (auto &e : ce) { size_t bar = e.find('|'); add_violation(v, prop, e.substr(0, bar), std::string(producer) + ": " + e.substr(bar + 1)); }
    }
    out.ctr[std::string("decoded_files_") + producer]++; out.ctr["decoded_chunks"] += d.chunks.size();
    int lv = specdec::max_fsr_level(d); out.ctr["decoded_max_level_" + std::to_string(lv)]++;
    if (lv >= 1 && d.chunks.size() >= 20) out.nontrivial = true;
    out.unit_hashes.push_back(fnv1a(bytes.data(), bytes.size()));
}

static RunOutcome check_format(const std::string &prop, const Plan &P) {
    RunOutcome out; AResult A;
    setup_world(P);
    count_ops(P, out);
    bool c14 = prop == "C14";
    if (write_phase(P, prop, A, out, c14, true)) {
        SFile *f = simfs::get(PATH_A);
        if (c14) { write_once_monitor(f, prop, out.viol, out); }
        else {
            decoder_check(prop, f->bytes, &A.m, P.use_twr ? "threaded_writer" : "sync_writer", out.viol, out);
            if (read_phase(P, prop, A, out, false)) oracle::check_dump(prop, A.m, P, A.d, out.viol, false);
            // jls_copy output must conform too
            int rc = -1; RunStatus st = exec::copy_file(PATH_A, "/sim/copy.jls", &rc);
            if (st != RUN_OK) add_violation(out.viol, prop, std::string("copy_") + sim::status_name(st), "jls_copy did not finish");
            else if (rc == 0) { SFile *c = simfs::get("/sim/copy.jls"); if (c) decoder_check(prop, c->bytes, nullptr, "copy", out.viol, out); }
        }
        out.sample = fmt("%zu ops, file %zu bytes%s", P.ops.size(), f->bytes.size(), P.use_twr ? ", threaded writer" : "");
    }
    finish_outcome(out);
    sim::cleanup();
    return out;
}

RunOutcome run_check(const std::string &prop, const Plan &P, int tier) {
    (void) tier;
    if (prop == "C05" || prop == "C14") return check_format(prop, P);
    if (prop == "C01" || prop == "C02" || prop == "C09" || prop == "C11" || prop == "C12" || prop == "C13") return check_roundtrip(prop, P);
    RunOutcome out;
    add_violation(out.viol, prop, "no_such_check", "check not implemented");
    return out;
}
