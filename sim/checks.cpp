#include "checks.h"
#include <sys/mman.h>
#include <time.h>
#include "oracles.h"
#include "mon.h"
#include "specdec.h"
#include <cstdio>
#include <cstdarg>
#include <algorithm>
#include <set>
#include <functional>
#include <unistd.h>
#include <fcntl.h>
#include <csignal>
#include <sys/wait.h>

const char *all_checks[] = {"C01", "C02", "C03", "C04", "C05", "C06", "C07", "C08", "C09", "C10", "C11", "C12", "C13", "C14", "C15", "C17", "C19", nullptr};
bool check_known(const std::string &prop) { for (int i = 0; all_checks[i]; ++i) if (prop == all_checks[i]) return true; return false; }

static std::string fmt(const char *f, ...) __attribute__((format(printf, 1, 2)));
static std::string fmt(const char *f, ...) { char b[640]; va_list ap; va_start(ap, f); vsnprintf(b, sizeof b, f, ap); va_end(ap); return b; }

void (*g_progress)(int, int, int64_t, int64_t, const char *) = nullptr;
const uint64_t STEP_BUDGET = 400000000ULL;
static const char *PATH_A = "/sim/a.jls";

struct AResult {
    WriterResult wr; Model m; Dump d; RunStatus rd_status = RUN_OK;
    bool writer_ok = false;
    std::vector<uint8_t> closed_bytes;
};

static void finish_outcome(RunOutcome &out) {
    out.decisions = sim::decisions();
    out.hash = sim::run_hash(); out.sched_hash = sim::sched_hash(); out.sim_ns = sim::sim_time_elapsed_ns();
    out.ctr["candidates"] += sim::n_candidates(); out.ctr["switches"] += sim::n_switches();
    out.ctr["fs_calls"] += simfs::calls; out.ctr["allocs"] += simalloc::n_allocs();
    for (int i = 0; i < F_COUNT; ++i) if (sim::fault_counts[i]) out.ctr[std::string("fault_") + fault_names[i]] += sim::fault_counts[i];
    for (int i = 0; i < 16; ++i) if (probes::count[i]) out.ctr[std::string("probe_") + probes::names[i]] += probes::count[i];
}

static void setup_world(const Plan &P) {
    sim::reset(P.seed, P.fill_key);
    sim::budget_set(STEP_BUDGET);
    sim::set_policy(P.pol);
    sim::set_faults(P.faults);
    if (P.has_decisions) sim::set_replay_decisions(&P.decisions);
    simfs::set_latency(P.faults.latency, P.seed);
    probes::install();
}

// which blocks have no level-0 data in the file (zero entries of the level-1 index, read by the independent decoder)
static int mark_omitted(Model &m, const std::vector<uint8_t> &bytes) {
    specdec::Decoded d; specdec::decode(bytes, d, false);
    int max_level = specdec::max_fsr_level(d);
    for (auto &kv : d.signals) {
        auto it = m.signals.find(kv.first);
        if (it == m.signals.end() || it->second.sigtype != 0 || !kv.second.spd) continue;
        it->second.omitted.clear();
        for (size_t ic : kv.second.levels[0][1].index_chunks) {
            const specdec::Chunk &c = d.chunks[ic]; if (!c.payload_ok || c.plen < 16 + 8ull * c.entries) continue;
            for (uint32_t k = 0; k < c.entries; ++k) {
                uint64_t off; memcpy(&off, bytes.data() + c.payload_off + 16 + 8 * k, 8);
                if (off) continue;
                int64_t rel = c.ts + (int64_t) k * kv.second.spd - it->second.first_id;
                it->second.omitted.push_back({rel, rel + kv.second.spd});
            }
        }
    }
    return max_level;
}

// write the program (sync or threaded), build the model from accepted ops, check acceptance against the conforming expectation
static bool write_phase(const Plan &P, const std::string &prop, AResult &A, RunOutcome &out, bool log_writes, bool conforming) {
    A.wr = P.use_twr ? exec::write_twr(P, PATH_A, log_writes) : exec::write_sync(P, PATH_A, log_writes);
    if (A.wr.status != RUN_OK) {
        add_violation(out.viol, prop, std::string("writer_") + sim::status_name(A.wr.status), fmt("writer program did not finish: %s %s", sim::status_name(A.wr.status), sim::deadlock_info().c_str()));
        return false;
    }
    if (A.wr.open_rc) { add_violation(out.viol, prop, "writer_open_failed", fmt("rc=%d", A.wr.open_rc)); return false; }
    for (size_t i = 0; i < P.ops.size(); ++i) {
        const Op &o = P.ops[i]; const OpRec &r = A.wr.rec[i];
        if (!r.done) continue;
        int e = A.m.expect(o);
        if (r.rc == 0) {
            if (e == 1 && conforming) add_violation(out.viol, prop, "accepted_invalid_call", fmt("op %zu '%s' returned 0", i, o.to_text().c_str()), (int) i);
            A.m.apply(o);
        } else if (e == 0 && conforming && !(P.use_twr && (o.kind != OP_SRC && o.kind != OP_SIG))) {
            add_violation(out.viol, prop, "rejected_valid_call", fmt("op %zu '%s' returned %d", i, o.to_text().c_str(), r.rc), (int) i);
        }
    }
    A.writer_ok = true;
    SFile *f = simfs::get(PATH_A);
    if (f) A.closed_bytes = f->bytes;
    out.ctr["programs_max_level_" + std::to_string(mark_omitted(A.m, A.closed_bytes))]++;   // reach: summary levels on disk in the finished file
    return true;
}

static bool read_phase(const Plan &P, const std::string &prop, AResult &A, RunOutcome &out, bool with_cold) {
    SFile *f = simfs::get(PATH_A);
    if (f) f->latch_ro = true;
    A.rd_status = exec::read_dump(P, PATH_A, A.d, with_cold);
    if (A.rd_status != RUN_OK) {
        add_violation(out.viol, prop, std::string("reader_") + sim::status_name(A.rd_status), fmt("reader program did not finish (%s) at read op %d", sim::status_name(A.rd_status), sim::cur_op_of(0)));
        return false;
    }
    return true;
}

static void count_ops(const Plan &P, RunOutcome &out) {
    for (auto &o : P.ops) out.ctr[std::string("op_") + op_names[o.kind]]++;
    for (auto &o : P.ops) { if (o.kind == OP_SIG && o.src == 0) out.ctr["reach_signal_on_builtin_source0"]++; if (o.kind == OP_USER && o.en) out.ctr["reach_user_data_call_refused_null"]++; }
    for (auto &o : P.reads) out.ctr[std::string("rd_") + op_names[o.kind]]++;
    if (P.use_twr) out.ctr["runs_threaded_writer"]++; else out.ctr["runs_sync_writer"]++;
}

// ------------------------------------------------------------------ engine A: fault-free store round trip
static RunOutcome check_roundtrip(const std::string &prop, const Plan &P) {
    RunOutcome out; AResult A;
    setup_world(P);
    count_ops(P, out);
    if (write_phase(P, prop, A, out, false, true) && read_phase(P, prop, A, out, true)) {
        oracle::check_dump(prop, A.m, P, A.d, out.viol, true);
        // per-property non-triviality
        int64_t total = 0; size_t nreads = 0; bool multi_block = false, any_gap = false, any_omit = false;
        for (auto &kv : A.m.signals) { total += kv.second.length(); NormDef nd = approx_norm(kv.second.dtype, kv.second.p); if (kv.second.length() > nd.spd) multi_block = true; if (!kv.second.gaps.empty()) any_gap = true; if (!kv.second.omit_events.empty()) any_omit = true; }
        for (auto &c : A.d.calls) if (!c.skipped && c.rc == 0) ++nreads;
        size_t na = 0, nu = 0; for (auto &kv : A.m.signals) { na += kv.second.annos.size(); nu += kv.second.utcs.size(); }
        if (prop == "C01") out.nontrivial = multi_block && nreads >= 3;
        else if (prop == "C02") out.nontrivial = multi_block && nreads >= 2;
        else if (prop == "C09") out.nontrivial = any_gap || out.ctr.count("probe_fsr_dup");
        else if (prop == "C11") out.nontrivial = na >= 3;
        else if (prop == "C12") out.nontrivial = nu >= 2;
        else if (prop == "C13") out.nontrivial = A.m.signals.size() >= 2 && nreads >= 2;
        else out.nontrivial = total > 0;
        (void) any_omit;
        out.ctr["samples_written"] += (uint64_t) total;
        out.sample = fmt("%zu signals, %lld samples, %zu ops, %zu reads%s", A.m.signals.size() - 1, (long long) total, P.ops.size(), P.reads.size(), P.use_twr ? ", threaded writer" : "");
        SFile *f = simfs::get(PATH_A);
        if (f && f->latch_violations) out.ctr["c19_latch_violations"] += f->latch_violations;
    }
    finish_outcome(out);
    sim::cleanup();
    return out;
}

// ------------------------------------------------------------------ C14: write-once monitor over the complete backend write history
struct WoChunk { uint64_t off; uint32_t plen; uint8_t tag; uint64_t payload_off, end; };
static void write_once_monitor(const SFile *f, const std::string &prop, Violations &v, RunOutcome &out) {
    std::vector<uint8_t> img; std::map<uint64_t, WoChunk> chunks; uint64_t parse_pos = 32; bool in_payload = false; WoChunk cur{};
    uint64_t n_inplace_hdr = 0, n_inplace_head = 0, n_filehdr = 0, n_append = 0; size_t opi = 0;
    auto parse = [&]() {
        for (;;) {
            if (!in_payload) {
                if (img.size() < parse_pos + 32) return;
                const uint8_t *h = img.data() + parse_pos;
                cur.off = parse_pos; memcpy(&cur.plen, h + 20, 4); cur.tag = h[16]; cur.payload_off = parse_pos + 32;
                uint64_t disk = cur.plen ? (uint64_t) cur.plen + ((8 - ((cur.plen + 4) & 7)) & 7) + 4 : 0;
                cur.end = cur.payload_off + disk;
                if (specdec::crc32c(h, 28) != *(const uint32_t *) (h + 28)) { add_violation(v, prop, "appended_header_bad_crc", fmt("appended chunk header @%llu has no valid crc (log op %zu)", (unsigned long long) parse_pos, opi)); parse_pos = UINT64_MAX / 2; return; }
                chunks[cur.off] = cur; in_payload = true;
            }
            if (img.size() < cur.end) return;
            parse_pos = cur.end; in_payload = false;
        }
    };
    for (opi = 0; opi < f->log.size(); ++opi) {
        const WOp &o = f->log[opi];
        if (o.kind == W_TRUNC) {
            if (!(o.off == 0 && img.empty())) add_violation(v, prop, "truncate", fmt("ftruncate/O_TRUNC to %llu while the file holds %zu bytes (log op %zu, plan op %d)", (unsigned long long) o.off, img.size(), opi, o.op), o.op);
            img.resize(o.off);
            continue;
        }
        if (o.kind != W_WRITE) continue;
        const uint8_t *data = f->logbytes.data() + o.data_pos;
        if (o.off == img.size()) { img.insert(img.end(), data, data + o.len); ++n_append; parse(); continue; }
        if (o.off > img.size()) { add_violation(v, prop, "write_beyond_eof", fmt("write of %llu bytes at %llu beyond the end %zu (log op %zu, plan op %d)", (unsigned long long) o.len, (unsigned long long) o.off, img.size(), opi, o.op), o.op); img.resize(o.off + o.len, 0); memcpy(img.data() + o.off, data, o.len); continue; }
        if (o.off + o.len > img.size()) {
            // straddles the end: partly in place
            add_violation(v, prop, "write_straddles_eof", fmt("write [%llu,+%llu) overlaps existing bytes and extends the file (size %zu; log op %zu, plan op %d)", (unsigned long long) o.off, (unsigned long long) o.len, img.size(), opi, o.op), o.op);
            img.resize(o.off + o.len, 0); memcpy(img.data() + o.off, data, o.len); continue;
        }
        // ---- in place
        bool ok = false; std::string why;
        auto it = chunks.find(o.off);
        if (o.off == 0 && o.len == 32) { ok = true; ++n_filehdr; }
        else if (o.len == 32 && it != chunks.end()) {
            if (memcmp(img.data() + o.off + 16, data + 16, 12) != 0) why = "chunk header rewrite changes tag/meta/payload lengths";
            else if (specdec::crc32c(data, 28) != *(const uint32_t *) (data + 28)) why = "chunk header rewrite carries a bad crc";
            else { ok = true; ++n_inplace_hdr; }
        } else {
            // head table payload or its footer
            for (auto &kv : chunks) {
                const WoChunk &c = kv.second;
                bool is_head = (c.tag & 0xe0) == 0x20 && (c.tag & 7) == 1 && c.plen == 128;
                if (!is_head || o.off < c.payload_off || o.off + o.len > c.end) continue;
                if (o.off == c.payload_off && o.len == 128) {
                    ok = true;
                    for (int k = 0; k < 16; ++k) {
                        uint64_t a, b2; memcpy(&a, img.data() + o.off + 8 * k, 8); memcpy(&b2, data + 8 * k, 8);
                        if (a == b2) continue;
                        if (a != 0) { ok = false; why = fmt("head table entry %d changes from %llu to %llu", k, (unsigned long long) a, (unsigned long long) b2); break; }
                        if (!chunks.count(b2)) { ok = false; why = fmt("head table entry %d set to %llu which is not a known chunk", k, (unsigned long long) b2); break; }
                    }
                    if (ok) ++n_inplace_head;
                } else if (o.off == c.payload_off + 128 && o.off + o.len == c.end) { ok = true; }
                else if (o.off == c.payload_off && o.off + o.len == c.end) {     // table, padding and CRC in one write
                    ok = true;
                    for (int k = 0; k < 16; ++k) {
                        uint64_t a, b2; memcpy(&a, img.data() + o.off + 8 * k, 8); memcpy(&b2, data + 8 * k, 8);
                        if (a == b2) continue;
                        if (a != 0) { ok = false; why = fmt("head table entry %d changes from %llu to %llu", k, (unsigned long long) a, (unsigned long long) b2); break; }
                        if (!chunks.count(b2)) { ok = false; why = fmt("head table entry %d set to %llu which is not a known chunk", k, (unsigned long long) b2); break; }
                    }
                    if (ok && specdec::crc32c(data, 128) != *(const uint32_t *) (data + o.len - 4)) { ok = false; why = "head table rewrite carries a bad crc"; }
                    if (ok) ++n_inplace_head;
                }
                else why = "partial write inside a head table";
                break;
            }
            if (!ok && why.empty()) why = "in-place write to stored chunk content";
        }
        if (!ok) add_violation(v, prop, "stored_content_rewritten", fmt("in-place write [%llu,+%llu): %s (log op %zu, plan op %d)", (unsigned long long) o.off, (unsigned long long) o.len, why.c_str(), opi, o.op), o.op);
        memcpy(img.data() + o.off, data, o.len);
    }
    out.ctr["wo_appends"] += n_append; out.ctr["wo_inplace_header"] += n_inplace_hdr; out.ctr["wo_inplace_head_table"] += n_inplace_head; out.ctr["wo_file_header"] += n_filehdr; out.ctr["wo_chunks"] += chunks.size();
    if (n_inplace_hdr + n_inplace_head > 0) out.nontrivial = true;
    if (img != f->bytes) add_violation(v, prop, "monitor_image_mismatch", "harness: replayed write log differs from the file (monitor error)");
}

static void decoder_check(const std::string &prop, const std::vector<uint8_t> &bytes, const Model *m, const char *producer, Violations &v, RunOutcome &out, bool check_summaries = true) {
    specdec::Decoded d; specdec::decode(bytes, d, true);
    for (auto &e : d.errors) { size_t bar = e.find('|'); add_violation(v, prop, "format_" + e.substr(0, bar), std::string(producer) + ": " + e.substr(bar + 1)); }
    if (m && d.errors.empty()) {
        std::vector<std::string> ce; specdec::ContentOpts o; o.check_summaries = check_summaries;
        specdec::compare_with_model(bytes, d, *m, o, ce);
        for (auto &e : ce) { size_t bar = e.find('|'); add_violation(v, prop, e.substr(0, bar), std::string(producer) + ": " + e.substr(bar + 1)); }
    }
    out.ctr[std::string("decoded_files_") + producer]++; out.ctr["decoded_chunks"] += d.chunks.size();
    int lv = specdec::max_fsr_level(d); out.ctr["decoded_max_level_" + std::to_string(lv)]++;
    if (lv >= 1 && d.chunks.size() >= 20) out.nontrivial = true;
    out.unit_hashes.push_back(fnv1a(bytes.data(), bytes.size()));
}

static RunOutcome check_format(const std::string &prop, const Plan &P) {
    RunOutcome out; AResult A;
    setup_world(P);
    count_ops(P, out);
    bool c14 = prop == "C14";
    if (write_phase(P, prop, A, out, c14, true)) {
        SFile *f = simfs::get(PATH_A);
        if (c14) { write_once_monitor(f, prop, out.viol, out); }
        else {
            decoder_check(prop, f->bytes, &A.m, P.use_twr ? "threaded_writer" : "sync_writer", out.viol, out);
            if (read_phase(P, prop, A, out, false)) oracle::check_dump(prop, A.m, P, A.d, out.viol, false);
            // jls_copy output must conform too
            int rc = -1; RunStatus st = exec::copy_file(PATH_A, "/sim/copy.jls", &rc);
            if (st != RUN_OK) add_violation(out.viol, prop, std::string("copy_") + sim::status_name(st), "jls_copy did not finish");
            else if (rc == 0) { SFile *c = simfs::get("/sim/copy.jls"); if (c) decoder_check(prop, c->bytes, nullptr, "copy", out.viol, out); }
        }
        out.sample = fmt("%zu ops, file %zu bytes%s", P.ops.size(), f->bytes.size(), P.use_twr ? ", threaded writer" : "");
    }
    finish_outcome(out);
    sim::cleanup();
    return out;
}

// ------------------------------------------------------------------ isolation: evaluate one crash image / altered image in a forked child,
// so that a crash, sanitizer abort or wall-clock hang inside the library is one more outcome and the enumeration goes on.
extern "C" int __llvm_profile_write_file(void) __attribute__((weak));
double g_enumeration_deadline = 0;
static bool past_enumeration_deadline() { if (g_enumeration_deadline <= 0) return false; struct timespec ts; clock_gettime(CLOCK_MONOTONIC, &ts); return ts.tv_sec + ts.tv_nsec / 1e9 > g_enumeration_deadline; }
struct IsoOut { Violations v; RunOutcome o; bool died = false; std::string death_cls, death_detail; int death_op = -1; };
// A child that dies without a symbolised library frame (e.g. SIGSEGV inside libc's memcpy called by the library) is still the
// library's doing when it was inside a library call made with valid arguments: name the call instead of giving up ("?" = harness).
static void attribute_death(IsoOut &iso, const Plan &P) {
    if (!iso.died || iso.death_cls.size() < 2 || iso.death_cls.compare(iso.death_cls.size() - 2, 2, ":?") != 0 || iso.death_op == -1) return;
    std::string what;
    if (iso.death_op == -2) what = "open";
    else if (iso.death_op >= 2000000 && iso.death_op - 2000000 < (int) P.reads.size()) what = op_names[P.reads[iso.death_op - 2000000].kind];
    else if (iso.death_op >= 1000000 && iso.death_op - 1000000 < (int) P.reads.size()) what = op_names[P.reads[iso.death_op - 1000000].kind];
    else if (iso.death_op >= 0 && iso.death_op < (int) P.ops.size()) what = op_names[P.ops[iso.death_op].kind];
    else return;
    iso.death_cls = iso.death_cls.substr(0, iso.death_cls.size() - 1) + "@" + what;
    iso.death_detail += " [no symbolised library frame; the process died inside the library call '" + what + "' (plan op " + std::to_string(iso.death_op) + ")]";
}
std::string sanitizer_class_of(const std::string &errpath, const char *fallback, std::string *summary);
static IsoOut isolate(const std::function<void(Violations &, RunOutcome &)> &fn) {
    IsoOut r;
    if (getenv("JLSSIM_NO_ISOLATE")) { fn(r.v, r.o); return r; }
    int fd[2]; if (pipe(fd)) { perror("pipe"); exit(2); }
    static volatile int *mirror = nullptr;
    if (!mirror) { void *pg = mmap(nullptr, 4096, PROT_READ | PROT_WRITE, MAP_SHARED | MAP_ANONYMOUS, -1, 0); if (pg != MAP_FAILED) mirror = (volatile int *) pg; }
    if (mirror) { *mirror = -1; sim::cur_op_mirror = mirror; }
    fflush(stdout); fflush(stderr);
    char errpath[80]; snprintf(errpath, sizeof errpath, "/verif/build/tmp/iso_err_%d.txt", (int) getpid());
    pid_t pid = fork();
    if (pid == 0) {
        close(fd[0]);
        int ef = open(errpath, O_WRONLY | O_CREAT | O_TRUNC, 0644); if (ef >= 0) dup2(ef, 2);
        alarm(120);
        Violations lv; RunOutcome lo; lo.evaluations = 0;
        fn(lv, lo);
        std::string s; auto clean = [](std::string t) { for (auto &ch : t) if (ch == '\t' || ch == '\n') ch = ' '; return t; };
        for (auto &v : lv) s += "V\t" + v.prop + "\t" + clean(v.cls) + "\t" + clean(v.detail) + "\t" + std::to_string(v.op) + "\n";
        for (auto &kv : lo.ctr) s += "C\t" + kv.first + "\t" + std::to_string(kv.second) + "\n";
        s += "N\t" + std::to_string(lo.nontrivial_units) + "\n";
        s += "E\t" + std::to_string(sim::edges_covered()) + "\n";
        for (uint64_t u : lo.unit_hashes) s += "U\t" + std::to_string(u) + "\n";
        size_t off = 0; while (off < s.size()) { ssize_t w = write(fd[1], s.data() + off, s.size() - off); if (w <= 0) break; off += (size_t) w; }
        if (__llvm_profile_write_file) __llvm_profile_write_file();     // cov variant only (weak)
        _exit(0);
    }
    close(fd[1]);
    std::string buf; char tmp[8192]; ssize_t n;
    while ((n = read(fd[0], tmp, sizeof tmp)) > 0) buf.append(tmp, (size_t) n);
    close(fd[0]);
    int st = 0; waitpid(pid, &st, 0);
    sim::cur_op_mirror = nullptr;
    if (!(WIFEXITED(st) && WEXITSTATUS(st) == 0)) {
        r.died = true; std::string summary; if (mirror) r.death_op = *mirror;
        if (WIFSIGNALED(st) && WTERMSIG(st) == SIGALRM) { r.death_cls = "wall_timeout"; r.death_detail = "did not finish within 120 s of wall clock"; }
        else { r.death_cls = sanitizer_class_of(errpath, WIFSIGNALED(st) ? ("signal" + std::to_string(WTERMSIG(st))).c_str() : "report", &summary); r.death_detail = summary; }
    }
    unlink(errpath);
    size_t pos = 0;
    while (pos < buf.size()) {
        size_t e = buf.find('\n', pos); if (e == std::string::npos) e = buf.size();
        std::string line = buf.substr(pos, e - pos); pos = e + 1;
        std::vector<std::string> f; size_t p2 = 0; while (true) { size_t t = line.find('\t', p2); if (t == std::string::npos) { f.push_back(line.substr(p2)); break; } f.push_back(line.substr(p2, t - p2)); p2 = t + 1; }
        if (f[0] == "V" && f.size() >= 5) { Violation v{f[1], f[2], f[3], atoi(f[4].c_str())}; r.v.push_back(v); }
        else if (f[0] == "C" && f.size() >= 3) r.o.ctr[f[1]] += strtoull(f[2].c_str(), nullptr, 10);
        else if (f[0] == "N" && f.size() >= 2) r.o.nontrivial_units += strtoull(f[1].c_str(), nullptr, 10);
        else if (f[0] == "E" && f.size() >= 2) sim::note_child_edges(strtoull(f[1].c_str(), nullptr, 10));
        else if (f[0] == "U" && f.size() >= 2) r.o.unit_hashes.push_back(strtoull(f[1].c_str(), nullptr, 10));
    }
    return r;
}

// ------------------------------------------------------------------ engine B: process stop at every write boundary / torn write (C03, C19)
static bool is_subsequence_annos(const std::vector<oracle::RAnno> &got, const MSignal &s, int64_t off) {
    size_t j = 0;
    for (auto &g : got) {
        bool found = false;
        while (j < s.annos.size()) { const MAnno &m = s.annos[j++]; if (g.t == m.t - off && g.at == m.at && g.st == m.st && g.grp == m.grp && g.ybits == m.ybits && g.data == m.data) { found = true; break; } }
        if (!found) return false;
    }
    return true;
}

static void check_image_dump(const Plan &P, const Model &Msub, const Dump &d, Violations &v, std::map<int, int64_t> &lens, bool errors_ok = false) {
    const std::string prop = "C03";
    // pass 1: reported lengths
    Model T = Msub;
    for (size_t i = 0; i < P.reads.size(); ++i) {
        const Op &o = P.reads[i]; const CallRec &c = d.calls[i];
        if (o.kind != RD_LEN) continue;
        auto it = T.signals.find(o.sig);
        if (c.rc != 0) continue;      // length unknown: successful reads are still compared with what was submitted
        int64_t n; memcpy(&n, c.out.data(), 8);
        if (it == T.signals.end() || it->second.sigtype != 0) { add_violation(v, prop, "exposes_unwritten_signal", fmt("length %lld reported for signal %d that was not defined at the crash point", (long long) n, o.sig), (int) i); continue; }
        MSignal &s = it->second;
        if (n < 0 || n > s.length()) { add_violation(v, prop, "length_exceeds_submitted", fmt("sig=%d %s reported=%lld submitted=%lld", o.sig, dt_name[s.dtype], (long long) n, (long long) s.length()), (int) i); n = std::max<int64_t>(0, std::min(n, s.length())); }
        lens[o.sig] = n;
        // trim
        if (n == 0) { s.has_data = false; s.bits.clear(); s.next_id = s.first_id; s.gaps.clear(); }
        else {
            s.next_id = s.first_id + n; s.bits.resize((size_t) (((uint64_t) n * dt_bits[s.dtype] + 7) / 8));
            std::vector<std::pair<int64_t, int64_t>> g2; for (auto &g : s.gaps) if (g.first < n) g2.push_back({g.first, std::min(g.second, n)}); s.gaps = g2;
        }
    }
    // signals for which no RD_LEN was issued cannot be judged: drop them
    // pass 2: calls
    for (size_t i = 0; i < P.reads.size(); ++i) {
        const Op &o = P.reads[i]; const CallRec &c = d.calls[i];
        if (c.skipped) continue;
        switch (o.kind) {
            case RD_FSR: case RD_FSR_F32: case RD_STATS: {
                auto it = T.signals.find(o.sig);
                if (it == T.signals.end()) { if (c.rc == 0 && o.n > 0) add_violation(v, prop, "exposes_unwritten_signal", fmt("read of signal %d succeeded although the signal is not readable/defined", o.sig), (int) i); break; }
                if (c.rc != 0 && (errors_ok || !lens.count(o.sig))) break;     // an error is an acceptable answer here
                size_t before = v.size();
                oracle::check_call(prop, T, o, c, (int) i, v);
                for (size_t k = before; k < v.size(); ++k) v[k].cls = "prefix_" + v[k].cls;
                break;
            }
            case RD_ANNO: {
                if (c.rc != 0) break;      // an error is acceptable
                std::vector<oracle::RAnno> got;
                if (!oracle::parse_annos(c.out, got)) { add_violation(v, prop, "anno_parse", "harness parse", (int) i); break; }
                auto ms = Msub.signals.find(o.sig);
                if (ms == Msub.signals.end()) { if (!got.empty()) add_violation(v, prop, "exposes_unwritten_annotation", fmt("sig=%d delivered %zu annotations, none submitted", o.sig, got.size()), (int) i); break; }
                auto ts = T.signals.find(o.sig);
                int64_t off = (ts != T.signals.end() && ts->second.sigtype == 0 && ts->second.has_data) ? ts->second.first_id : 0;
                if (!is_subsequence_annos(got, ms->second, off)) {
                    // the reader may not know the first sample id (no data chunk on disk): then timestamps are not rebased
                    if (!(off != 0 && is_subsequence_annos(got, ms->second, 0)) && !(off == 0 && ms->second.sigtype == 0 && ms->second.has_data && is_subsequence_annos(got, ms->second, ms->second.first_id)))
                        add_violation(v, prop, "annotation_altered_or_reordered", fmt("sig=%d: the %zu delivered annotations are not an in-order subsequence of the %zu submitted", o.sig, got.size(), ms->second.annos.size()), (int) i);
                }
                break;
            }
            case RD_UTC: {
                if (c.rc != 0) break;
                auto ms = Msub.signals.find(o.sig);
                size_t ngot = c.out.size() / 16; const int64_t *g = (const int64_t *) c.out.data();
                if (ms == Msub.signals.end()) { if (ngot) add_violation(v, prop, "exposes_unwritten_utc", fmt("sig=%d delivered %zu utc entries", o.sig, ngot), (int) i); break; }
                auto ts = T.signals.find(o.sig);
                for (int attempt = 0; attempt < 2; ++attempt) {
                    int64_t off = attempt == 0 ? ((ts != T.signals.end() && ts->second.has_data) ? ts->second.first_id : 0) : (ms->second.has_data ? ms->second.first_id : 0);
                    size_t j = 0; bool ok = true;
                    for (size_t k = 0; k < ngot && ok; ++k) { bool f = false; while (j < ms->second.utcs.size()) { const MUtc &u = ms->second.utcs[j++]; if (u.id - off == g[2 * k] && u.utc == g[2 * k + 1]) { f = true; break; } } ok = f; }
                    if (ok) break;
                    if (attempt == 1) add_violation(v, prop, "utc_altered_or_reordered", fmt("sig=%d: the %zu delivered utc entries are not an in-order subsequence of the %zu submitted", o.sig, ngot, ms->second.utcs.size()), (int) i);
                }
                break;
            }
            case RD_USER: {
                if (c.rc != 0) break;
                std::vector<oracle::RUser> got;
                if (!oracle::parse_users(c.out, got)) break;
                size_t j = 0; bool ok = true;
                for (auto &g : got) { bool f = false; while (j < Msub.users.size()) { const MUser &u = Msub.users[j++]; if ((int) g.meta == u.meta && (int) g.st == u.st && g.data == u.data) { f = true; break; } } if (!f) { ok = false; break; } }
                if (!ok) add_violation(v, prop, "user_data_altered_or_reordered", fmt("the %zu delivered user data items are not an in-order subsequence of the %zu submitted", got.size(), Msub.users.size()), (int) i);
                break;
            }
            default: break;   // definitions: checked through RD_LEN / reads (a signal that reads back was defined)
        }
    }
}

// conservative lower bound of the samples that must survive a stop on a write boundary: all complete DATA chunks except the last, leading run only
static void durable_bounds(const std::vector<uint8_t> &img, const Model &Msub, std::map<int, int64_t> &bound) {
    specdec::Decoded d; specdec::decode(img, d, false);
    for (auto &kv : d.signals) {
        auto ms = Msub.signals.find(kv.first);
        if (ms == Msub.signals.end() || ms->second.sigtype != 0 || !ms->second.has_data) continue;
        const std::vector<size_t> &dc = kv.second.data_chunks[0];
        int64_t expect = ms->second.first_id, L = 0;
        for (size_t i = 0; i + 1 < dc.size(); ++i) {
            const specdec::Chunk &c = d.chunks[dc[i]];
            if (!c.payload_ok || c.ts != expect) break;
            expect += c.entries; L = expect - ms->second.first_id;
        }
        bound[kv.first] = L;
    }
}

static RunOutcome check_crash(const std::string &prop, const Plan &P, int tier) {
    RunOutcome out; AResult A;
    setup_world(P);
    count_ops(P, out);
    out.evaluations = 0;
    Violations all;
    if (!write_phase(P, "C03", A, out, true, true)) { all = out.viol; out.viol.clear(); }
    else {
        SFile *f = simfs::get(PATH_A);
        // keep a private copy of the log: later sessions create other files
        std::vector<WOp> log = f->log; std::vector<uint8_t> logbytes = f->logbytes;
        SFile logfile; logfile.log = log; logfile.logbytes = logbytes;
        std::vector<size_t> mut;    // indices of mutating ops
        for (size_t i = 0; i < log.size(); ++i) if (log[i].kind == W_WRITE || log[i].kind == W_TRUNC) mut.push_back(i);
        Rng r = rng_derive(P.seed, "crash");
        std::set<uint64_t> seen_images;
        uint64_t closed_hash = fnv1a(A.closed_bytes.data(), A.closed_bytes.size());
        // which ops had started at each mutating op: op index recorded in the log (-1: inside jls_wr_open, treated as op 0 not started)
        std::vector<std::pair<size_t, size_t>> points;   // (k complete mutating ops, b bytes of the next)
        size_t max_points = tier ? 6000 : 400;
        for (size_t k = 0; k <= mut.size(); ++k) {
            points.push_back({k, 0});
            if (k < mut.size() && log[mut[k]].kind == W_WRITE && log[mut[k]].len > 1) {
                uint64_t len = log[mut[k]].len;
                if (tier && len <= 160) { for (uint64_t b = 1; b < len; ++b) points.push_back({k, (size_t) b}); }
                else { int nt = tier ? 8 : 2; for (int t = 0; t < nt; ++t) points.push_back({k, (size_t) r.range(1, (int64_t) len - 1)}); }
            }
        }
        // focus (replay / minimisation): evaluate a single crash point
        {
            bool focused = false; std::pair<size_t, size_t> fp{0, 0};
            for (size_t i = 0; i < P.ops.size(); ++i) if (P.ops[i].fw >= 0) {
                int cnt = 0; for (size_t k = 0; k < mut.size(); ++k) if (log[mut[k]].op == (int) i) { if (cnt == P.ops[i].fw) { fp = {k, (size_t) P.ops[i].fb}; focused = true; break; } ++cnt; }
                if (!focused) { fp = {mut.size(), 0}; focused = true; }    // op issues fewer writes now: fall back to the closed file
            }
            if (P.focus_k >= 0) { fp = {(size_t) std::min<int64_t>(P.focus_k, (int64_t) mut.size()), (size_t) P.focus_b}; focused = true; }
            if (P.focus_k == -2) { fp = {mut.size(), 0}; focused = true; }
            if (focused) { points.clear(); points.push_back(fp); }
        }
        if (points.size() > max_points) {   // sample, biased to the tail (close sequence) and keeping every boundary when possible
            std::vector<std::pair<size_t, size_t>> sel;
            for (auto &pt : points) { bool boundary = pt.second == 0; double keep = (double) max_points / points.size(); if (boundary) keep *= 3; if (pt.first + 60 >= mut.size()) keep *= 4; if (pt.first >= mut.size()) keep = 1.0; /* the closed file itself: always */ if (r.chance(std::min(1.0, keep))) sel.push_back(pt); }
            points.swap(sel);
        }
        std::vector<uint8_t> img;
        for (auto &pt : points) {
            if (past_enumeration_deadline()) { out.ctr["enumeration_cut_by_budget"]++; break; }
            size_t k = pt.first, b = pt.second;
            simfs::image(&logfile, k, b, img);
            uint64_t ih = fnv1a(img.data(), img.size());
            if (!seen_images.insert(ih).second) continue;
            ++out.evaluations;
            size_t viol_before = all.size();
            if (g_progress) { int fo = k < mut.size() ? log[mut[k]].op : -4, fwi = 0; if (k < mut.size()) for (size_t z = 0; z < k; ++z) if (log[mut[z]].op == log[mut[k]].op) ++fwi; g_progress(fo, fwi, (int64_t) b, (int64_t) k, ""); }
            // a stop in the middle of an in-place rewrite (chunk header link, head table, file header) damages an older chunk: separate family
            bool torn_inplace = b > 0 && k < mut.size() && log[mut[k]].kind == W_WRITE && log[mut[k]].off + log[mut[k]].len <= log[mut[k]].size_before;
            IsoOut iso = isolate([&](Violations &lv, RunOutcome &lo) {
            // submitted model: ops that had started when write k was (or would have been) issued
            int cur_op = k < mut.size() ? log[mut[k]].op : (int) P.ops.size();
            if (k == mut.size()) cur_op = (int) P.ops.size();
            Model Msub; bool defs_on_disk = true;
            for (size_t i = 0; i < P.ops.size(); ++i) {
                if ((int) i > cur_op) break;
                if (!A.wr.rec[i].done || A.wr.rec[i].rc != 0) continue;
                Msub.apply(P.ops[i]);
            }
            for (auto &kv : Msub.signals) { auto fm = A.m.signals.find(kv.first); if (fm != A.m.signals.end()) kv.second.omitted = fm->second.omitted; }
            if (cur_op < 0) defs_on_disk = false;
            else if (cur_op < (int) P.ops.size() && (P.ops[cur_op].kind == OP_SRC || P.ops[cur_op].kind == OP_SIG)) defs_on_disk = false;
            const char *PATH_C = "/sim/crash.jls";
            simfs::put(PATH_C, img);
            uint64_t mut0 = 0, ow0 = 0; { SFile *c0 = simfs::get(PATH_C); if (c0) { mut0 = c0->n_mut; ow0 = c0->n_open_w; } }
            Dump d1; RunStatus st = exec::read_dump(P, PATH_C, d1, false);
            if (ih == closed_hash && st == RUN_OK) {      // C19, first clause: a properly closed, undamaged file is never modified by opening and reading it
                SFile *c1 = simfs::get(PATH_C);
                if (c1 && (c1->n_mut != mut0 || c1->n_open_w != ow0 || c1->bytes != img))
                    add_violation(lv, "C19", "closed_file_modified_by_reading", fmt("the closed, undamaged file received %llu mutating backend calls and %llu opens for writing while it was opened and read%s",
                                  (unsigned long long) (c1->n_mut - mut0), (unsigned long long) (c1->n_open_w - ow0), c1->bytes != img ? "; its bytes changed" : ""));
                lo.ctr["closed_files_read_and_compared"]++;
            }
            std::string where = fmt("stop after %zu of %zu backend writes%s", k, mut.size(), b ? fmt(" + %zu bytes of the next (%llu)", b, (unsigned long long) log[mut[k]].len).c_str() : "");
            if (st != RUN_OK) {
                add_violation(lv, "C03", std::string("open_") + sim::status_name(st), where + ": opening/reading the image did not terminate (" + sim::status_name(st) + ")");
                lv.back().f_k = (int64_t) k; lv.back().f_b = (int64_t) b; lv.back().f_op = k < mut.size() ? log[mut[k]].op : -4; lv.back().f_w = 0;
                if (k < mut.size()) for (size_t z = 0; z < k; ++z) if (log[mut[z]].op == log[mut[k]].op) ++lv.back().f_w;
                return;
            }
            if (getenv("JLSSIM_VERBOSE")) {
                fprintf(stderr, "IMAGE %s size=%zu open_rc=%d repaired=%d\n", where.c_str(), img.size(), d1.open_rc, (int) d1.repaired);
                { FILE *o1 = fopen("/tmp/jlssim_crash.jls", "wb"); if (o1) { fwrite(img.data(), 1, img.size(), o1); fclose(o1); } SFile *cf0 = simfs::get(PATH_C); FILE *o2 = fopen("/tmp/jlssim_repaired.jls", "wb"); if (o2 && cf0) { fwrite(cf0->bytes.data(), 1, cf0->bytes.size(), o2); } if (o2) fclose(o2); }
                for (size_t q = 0; q < d1.calls.size(); ++q) { fprintf(stderr, "  call %zu %s -> rc=%d out=%zu bytes", q, P.reads[q].to_text().c_str(), d1.calls[q].rc, d1.calls[q].out.size()); if (P.reads[q].kind == RD_LEN && d1.calls[q].rc == 0) { int64_t n; memcpy(&n, d1.calls[q].out.data(), 8); fprintf(stderr, " len=%lld", (long long) n); } fprintf(stderr, "\n"); }
            }
            bool nontrivial_img = ih != closed_hash && img.size() > 32 && (d1.repaired || d1.open_rc != 0);
            if (nontrivial_img) { ++lo.nontrivial_units; lo.unit_hashes.push_back(ih); }
            lo.ctr[d1.open_rc == 0 ? (d1.repaired ? "images_repaired" : "images_opened_clean") : "images_open_error"]++;
            if (b) lo.ctr["images_torn"]++; else lo.ctr["images_boundary"]++;
            if (d1.open_rc == 0) {
                std::map<int, int64_t> lens;
                size_t nb = lv.size();
                check_image_dump(P, Msub, d1, lv, lens);
                for (size_t q = nb; q < lv.size(); ++q) lv[q].detail = where + ": " + lv[q].detail;
                if (b == 0 && defs_on_disk) {
                    std::map<int, int64_t> bound; durable_bounds(img, Msub, bound);
                    for (auto &kv : bound) {
                        auto it = lens.find(kv.first);
                        bool asked = false; for (auto &ro : P.reads) if (ro.kind == RD_LEN && ro.sig == kv.first) asked = true;
                        if (it == lens.end() && !asked) continue;      // the read program never asked for this length (minimised plans)
                        if (it == lens.end()) { add_violation(lv, "C03", "boundary_signal_unreadable", where + fmt(": signal %d has %lld durable samples but its length cannot be read", kv.first, (long long) kv.second)); continue; }
                        if (it->second < kv.second) add_violation(lv, "C03", "boundary_loses_durable_samples", where + fmt(": signal %d reopened with %lld samples, but %lld samples are in complete data chunks before the in-flight block", kv.first, (long long) it->second, (long long) kv.second));
                    }
                }
                // ---- C19: the file after the (possibly repairing) open is closed and stable
                SFile *cf = simfs::get(PATH_C);
                std::vector<uint8_t> after1 = cf->bytes;
                if (d1.repaired) {
                    specdec::Decoded dd; dd.repaired_mode = true; specdec::decode(after1, dd, true);
                    for (auto &e : dd.errors) { size_t bar = e.find('|'); add_violation(lv, "C19", "repaired_format_" + e.substr(0, bar), where + ": repaired file: " + e.substr(bar + 1)); }
                    lo.ctr["repaired_files_decoded"]++;
                }
                for (int session = 2; session <= 3; ++session) {
                    uint64_t mut_before = cf->n_mut, openw_before = cf->n_open_w;
                    Dump d2; RunStatus st2 = exec::read_dump(P, PATH_C, d2, false);
                    cf = simfs::get(PATH_C);
                    if (st2 != RUN_OK) { add_violation(lv, "C19", std::string("reopen_") + sim::status_name(st2), where + fmt(": open #%d did not terminate", session)); break; }
                    if (cf->n_mut != mut_before || cf->n_open_w != openw_before) add_violation(lv, "C19", "reopen_modifies_file", where + fmt(": open #%d issued %llu mutating calls / %llu opens for writing", session, (unsigned long long) (cf->n_mut - mut_before), (unsigned long long) (cf->n_open_w - openw_before)));
                    if (d2.open_rc != d1.open_rc) add_violation(lv, "C19", "reopen_result_differs", where + fmt(": open #%d returned %d, the repairing open returned %d", session, d2.open_rc, d1.open_rc));
                    else for (size_t q = 0; q < d1.calls.size(); ++q) if (d1.calls[q].rc != d2.calls[q].rc || d1.calls[q].out != d2.calls[q].out) {
                        add_violation(lv, "C19", "reopen_dump_differs", where + fmt(": open #%d: call %zu (%s) differs from the repairing session (rc %d vs %d, %zu vs %zu bytes)", session, q, P.reads[q].to_text().c_str(), d2.calls[q].rc, d1.calls[q].rc, d2.calls[q].out.size(), d1.calls[q].out.size()), (int) q); break; }
                    lo.ctr["c19_sessions"]++;
                }
            } else if (b == 0 && defs_on_disk) {
                add_violation(lv, "C03", "boundary_open_failed", where + fmt(": jls_rd_open returned %d although the stop is between two writes and every definition is on disk (writer was in op %d %s)", d1.open_rc, cur_op, cur_op >= 0 && cur_op < (int) P.ops.size() ? op_names[P.ops[cur_op].kind] : "-"));
            }
            });
            if (torn_inplace) { for (auto &v : iso.v) v.cls = "torn_inplace_" + v.cls; out.ctr["images_torn_inplace"]++; }
            { std::map<std::string, int> per; for (auto &x : all) per[x.prop + x.cls]++; for (auto &v : iso.v) if (all.size() < 200 && per[v.prop + v.cls]++ < 3) all.push_back(v); }
            for (auto &kv : iso.o.ctr) out.ctr[kv.first] += kv.second;
            out.nontrivial_units += iso.o.nontrivial_units; for (uint64_t u : iso.o.unit_hashes) out.unit_hashes.push_back(u);
            attribute_death(iso, P);
            if (iso.died) {
                std::string where0 = fmt("stop after %zu of %zu backend writes%s", k, mut.size(), b ? fmt(" + %zu bytes of the next", b).c_str() : "");
                int same = 0; for (auto &x : all) if (x.cls == iso.death_cls) ++same;
                if (all.size() < 200 && same < 3) all.push_back(Violation{"C03", iso.death_cls, where0 + ": opening/reading the image killed the process: " + iso.death_detail, -1});
                out.ctr["images_killed_process"]++;
            }
            simfs::remove("/sim/crash.jls");
            for (size_t q = viol_before; q < all.size(); ++q) {
                all[q].f_k = (int64_t) k; all[q].f_b = (int64_t) b; all[q].f_op = k < mut.size() ? log[mut[k]].op : -4; all[q].f_w = 0;
                if (k < mut.size()) for (size_t z = 0; z < k; ++z) if (log[mut[z]].op == log[mut[k]].op) ++all[q].f_w;
            }
        }
        out.sample = fmt("%zu ops, %zu backend writes, %llu images opened", P.ops.size(), mut.size(), (unsigned long long) out.evaluations);
        out.ctr["crash_programs"]++; out.ctr["backend_writes"] += mut.size();
        out.nontrivial = out.nontrivial_units > 0;
    }
    { std::map<std::string, int> per; for (auto &v : all) if (v.prop == prop && out.viol.size() < 12 && per[v.cls]++ < 2) out.viol.push_back(v); }
    if (out.evaluations == 0) out.evaluations = 1;
    finish_outcome(out);
    sim::cleanup();
    return out;
}

// ------------------------------------------------------------------ engine C: stored-bit faults on a closed file (C04)
struct Alter { int kind; uint64_t off; uint64_t arg; };   // kind 0: xor byte at off with mask arg; 1: zero arg bytes at off; 2: overwrite arg bytes at off with 0xA5
static std::string alter_text(const std::vector<Alter> &a) {
    std::string s; char b[64];
    for (size_t i = 0; i < a.size(); ++i) { snprintf(b, sizeof b, "%s%c:%llu:%llu", i ? "," : "", a[i].kind == 0 ? 'x' : a[i].kind == 1 ? 'z' : 'o', (unsigned long long) a[i].off, (unsigned long long) a[i].arg); s += b; }
    return s;
}
static bool alter_parse(const std::string &t, std::vector<Alter> &a) {
    size_t pos = 0;
    while (pos < t.size()) {
        size_t e = t.find(',', pos); if (e == std::string::npos) e = t.size();
        std::string tok = t.substr(pos, e - pos); pos = e + 1;
        char k; unsigned long long o, g;
        if (sscanf(tok.c_str(), "%c:%llu:%llu", &k, &o, &g) != 3) return false;
        a.push_back(Alter{k == 'x' ? 0 : k == 'z' ? 1 : 2, o, g});
    }
    return true;
}
static void alter_apply(std::vector<uint8_t> &img, const std::vector<Alter> &a) {
    for (auto &x : a) {
        if (x.kind == 0) { if (x.off < img.size()) img[x.off] ^= (uint8_t) x.arg; }
        else for (uint64_t i = 0; i < x.arg && x.off + i < img.size(); ++i) img[x.off + i] = x.kind == 1 ? 0 : 0xA5;
    }
}

static RunOutcome check_corrupt(const std::string &prop, const Plan &P, int tier) {
    RunOutcome out; AResult A;
    setup_world(P);
    count_ops(P, out);
    out.evaluations = 0;
    if (write_phase(P, prop, A, out, false, true) && out.viol.empty()) {
        const std::vector<uint8_t> F = A.closed_bytes;
        Dump D0; RunStatus st0 = exec::read_dump(P, PATH_A, D0, false);
        Violations pre;
        if (st0 == RUN_OK) oracle::check_dump(prop, A.m, P, D0, pre, false);
        specdec::Decoded dec; specdec::decode(F, dec, true);
        if (st0 != RUN_OK || !pre.empty() || !dec.errors.empty() || D0.open_rc != 0) {
            out.ctr["pristine_dump_not_right_skipped"]++;     // other properties' business; nothing to corrupt
            for (auto &pv : pre) out.ctr["pristine_skip_" + pv.cls]++;
            for (auto &e : dec.errors) out.ctr["pristine_skip_format_" + e.substr(0, e.find('|'))]++;
            if (!pre.empty()) out.sample = "skipped: " + pre[0].cls + ": " + pre[0].detail;
        } else {
            std::vector<specdec::Region> regs; specdec::regions(dec, regs);
            uint64_t fhash = fnv1a(F.data(), F.size());
            Rng r = rng_derive(P.seed, "corrupt");
            std::vector<std::vector<Alter>> alts;
            if (!P.focus.empty()) { for (auto &t : P.focus) { std::vector<Alter> a; if (alter_parse(t, a)) alts.push_back(a); } }
            else {
                size_t budget = tier ? 2500 : 260;
                if (tier && F.size() <= 8192) { for (uint64_t o = 0; o < F.size(); ++o) for (int b = 0; b < 8; ++b) alts.push_back({Alter{0, o, 1ull << b}}); out.ctr["exhaustive_single_bit_files"]++; }
                while (alts.size() < budget + (tier && F.size() <= 8192 ? F.size() * 8 : 0)) {
                    std::vector<Alter> a; int c = (int) r.below(12);
                    auto pick_region = [&](int kind_pref) { for (int t = 0; t < 8; ++t) { const specdec::Region &g = regs[r.below(regs.size())]; if (kind_pref < 0 || g.kind == kind_pref) return g; } return regs[r.below(regs.size())]; };
                    auto flips_in = [&](const specdec::Region &g, int n) { for (int i = 0; i < n; ++i) a.push_back(Alter{0, (uint64_t) r.range((int64_t) g.start, (int64_t) g.end - 1), 1ull << r.below(8)}); };
                    if (c < 3) flips_in(pick_region(c == 0 ? 1 : c == 1 ? 2 : -1), 1);
                    else if (c == 3) flips_in(pick_region(-1), 2);
                    else if (c == 4) flips_in(pick_region(-1), 3);
                    else if (c == 5) {   // burst of <= 32 bits
                        const specdec::Region &g = pick_region(-1); uint64_t bits = (g.end - g.start) * 8; uint64_t len = (uint64_t) r.range(2, 32); if (len > bits) len = bits;
                        uint64_t start = g.start * 8 + r.below(bits - len + 1);
                        for (uint64_t i = 0; i < len; ++i) if (i == 0 || i == len - 1 || r.chance(0.5)) a.push_back(Alter{0, (start + i) / 8, 1ull << ((start + i) & 7)});
                    }
                    else if (c == 6) { int n = (int) r.range(2, 4); for (int i = 0; i < n; ++i) flips_in(pick_region(-1), (int) r.range(1, 3)); }     // several regions at once
                    else if (c == 7) { flips_in(regs[0], (int) r.range(1, 3)); }                                                                        // file header
                    else if (c == 8) { const specdec::Region &g = regs[regs.size() - 1]; flips_in(g, (int) r.range(1, 3)); if (r.chance(0.5)) flips_in(pick_region(-1), 1); }   // END chunk (+ another)
                    else if (c == 9) { const specdec::Region &g = pick_region(-1); uint64_t len = (uint64_t) r.range(1, (int64_t) std::min<uint64_t>(g.end - g.start, 600)); a.push_back(Alter{1, (uint64_t) r.range((int64_t) g.start, (int64_t) (g.end - len)), len}); }
                    else if (c == 10) { uint64_t len = (uint64_t) r.range(1, 300); a.push_back(Alter{2, r.below(F.size()), len}); }
                    else {   // pad bytes (unprotected)
                        std::vector<uint64_t> pads; for (auto &ch : dec.chunks) if (ch.plen) for (uint64_t p2 = ch.payload_off + ch.plen; p2 + 4 < ch.end; ++p2) pads.push_back(p2);
                        if (pads.empty()) continue;
                        a.push_back(Alter{0, pads[r.below(pads.size())], 1ull << r.below(8)});
                    }
                    alts.push_back(a);
                }
            }
            const char *PATH_X = "/sim/alt.jls";
            for (auto &a : alts) {
                if (past_enumeration_deadline()) { out.ctr["enumeration_cut_by_budget"]++; break; }
                std::vector<uint8_t> img = F; alter_apply(img, a);
                if (img == F) continue;
                // classification per protected region
                bool only_pad = true, certain = true, detectable = false;
                for (auto &g : regs) {
                    uint64_t nbits = 0, first = UINT64_MAX, last = 0;
                    for (uint64_t o = g.start; o < g.end; ++o) { uint8_t x = img[o] ^ F[o]; if (!x) continue; for (int b = 0; b < 8; ++b) if (x & (1 << b)) { ++nbits; uint64_t bit = o * 8 + b; first = std::min(first, bit); last = std::max(last, bit); } }
                    if (!nbits) continue;
                    // pad bytes are inside kind-2 regions but outside crc coverage
                    bool region_is_pad_only = false;
                    if (g.kind == 2) { const specdec::Chunk &ch = dec.chunks[g.chunk]; bool in_cov = false; for (uint64_t o = g.start; o < g.end; ++o) if (img[o] != F[o] && (o < ch.payload_off + ch.plen || o >= ch.end - 4)) in_cov = true; region_is_pad_only = !in_cov; }
                    if (region_is_pad_only) continue;
                    only_pad = false;
                    if (!(nbits <= 3 || last - first < 32)) certain = false;
                    // does the altered region still carry a matching crc? (then the alteration is undetectable by design)
                    bool match;
                    if (g.kind == 0) match = specdec::crc32c(img.data(), 28) == *(const uint32_t *) (img.data() + 28);
                    else if (g.kind == 1) match = specdec::crc32c(img.data() + g.start, 28) == *(const uint32_t *) (img.data() + g.start + 28);
                    else { const specdec::Chunk &ch = dec.chunks[g.chunk]; match = specdec::crc32c(img.data() + ch.payload_off, ch.plen) == *(const uint32_t *) (img.data() + ch.end - 4); }
                    if (!match) detectable = true;
                    else if (nbits <= 3 || last - first < 32) { add_violation(out.viol, prop, "harness_crc_model", "an alteration of <= 3 bits / <= 32-bit burst left a matching CRC: decoder CRC model is wrong"); }
                }
                // unprotected bytes outside all regions do not exist (every byte is header or payload area)
                if (!only_pad && !certain && !detectable) { out.ctr["alterations_undetectable_by_design"]++; continue; }
                ++out.evaluations;
                out.ctr[only_pad ? "alterations_pad_only" : certain ? "alterations_certain_class" : "alterations_uncertain_but_crc_differs"]++;
                std::string atext0 = alter_text(a);
                IsoOut iso = isolate([&](Violations &lv, RunOutcome &lo) {
                simfs::put(PATH_X, img);
                std::string atext = alter_text(a);
                if (g_progress) g_progress(-3, -1, 0, -1, atext.c_str());
                Dump d; RunStatus st = exec::read_dump(P, PATH_X, d, false, true);
                size_t vb = lv.size();
                if (st != RUN_OK) { add_violation(lv, prop, std::string("corrupt_") + sim::status_name(st), fmt("alteration %s: reading did not terminate (%s)", atext.c_str(), sim::status_name(st))); lv.back().f_alter = atext; return; }
                lo.unit_hashes.push_back(fnv_u64(fnv1a(atext.data(), atext.size()), fhash)); ++lo.nontrivial_units;
                lo.ctr[d.open_rc ? "altered_open_error" : d.repaired ? "altered_open_repaired" : "altered_open_ok"]++;
                if (d.open_rc == 0) {
                    if (d.repaired) { std::map<int, int64_t> lens; check_image_dump(P, A.m, d, lv, lens, true); for (size_t q = vb; q < lv.size(); ++q) { lv[q].prop = prop; lv[q].cls = "repaired_" + lv[q].cls; } }
                    else {
                        uint64_t n_err = 0, n_same = 0;
                        for (size_t q = 0; q < d.calls.size(); ++q) {
                            const CallRec &c = d.calls[q], &c0 = D0.calls[q];
                            if (c.skipped) continue;
                            if (c.rc != 0 && !d.retry[q].skipped && d.retry[q].rc == 0 && !(c0.rc == 0 && d.retry[q].out == c0.out)) {
                                // the call reported the damage, the same call repeated straight away returns content: it must be the original content
                                add_violation(lv, prop, "altered_content_returned_on_retry", fmt("alteration %s: call %zu (%s) failed with %d, the same call repeated returned rc 0 with output that differs from the pristine file (%zu vs %zu bytes; pristine rc %d)", atext.c_str(), q, P.reads[q].to_text().c_str(), c.rc, d.retry[q].out.size(), c0.out.size(), c0.rc), (int) q);
                                break;
                            }
                            if (c.rc != 0) { ++n_err; if (!d.retry[q].skipped) lo.ctr["altered_calls_retried"]++; if (only_pad && c0.rc == 0) { add_violation(lv, prop, "pad_flip_changes_output", fmt("alteration %s (pad bytes only): call %zu (%s) failed with %d, pristine rc 0", atext.c_str(), q, P.reads[q].to_text().c_str(), c.rc), (int) q); break; } continue; }
                            if (c0.rc == 0 && c.out == c0.out) { ++n_same; continue; }
                            // callbacks deliver items before an error is detected: a shorter in-order delivery with rc != 0 was handled above; rc == 0 must be complete and equal
                            add_violation(lv, prop, only_pad ? "pad_flip_changes_output" : "altered_content_returned",
                                          fmt("alteration %s: call %zu (%s) returned rc 0 with output that differs from the pristine file (%zu vs %zu bytes; pristine rc %d)", atext.c_str(), q, P.reads[q].to_text().c_str(), c.out.size(), c0.out.size(), c0.rc), (int) q);
                            break;
                        }
                        lo.ctr["altered_calls_error"] += n_err; lo.ctr["altered_calls_same"] += n_same;

                    }
                } else if (only_pad) add_violation(lv, prop, "pad_flip_changes_output", fmt("alteration %s (pad bytes only): open failed with %d", atext.c_str(), d.open_rc));
                for (size_t q = vb; q < lv.size(); ++q) { lv[q].f_alter = atext; if (lv[q].detail.find("alteration") != 0) lv[q].detail = "alteration " + atext + ": " + lv[q].detail; }
                simfs::remove(PATH_X);
                });
                for (auto &v : iso.v) { if (out.viol.size() < 8) { out.viol.push_back(v); out.viol.back().f_alter = atext0; } }
                for (auto &kv : iso.o.ctr) out.ctr[kv.first] += kv.second;
                out.nontrivial_units += iso.o.nontrivial_units; for (uint64_t u : iso.o.unit_hashes) out.unit_hashes.push_back(u);
                attribute_death(iso, P);
                if (iso.died && out.viol.size() < 8) { out.viol.push_back(Violation{prop, iso.death_cls, "alteration " + atext0 + ": reading the altered file killed the process: " + iso.death_detail, -1}); out.viol.back().f_alter = atext0; out.ctr["altered_killed_process"]++; }
                if (out.viol.size() >= 8) break;
            }
            out.sample = fmt("file of %zu bytes, %zu chunks, %zu regions, %llu altered images read", F.size(), dec.chunks.size(), regs.size(), (unsigned long long) out.evaluations);
            out.nontrivial = out.nontrivial_units > 0;
        }
    }
    if (out.evaluations == 0) out.evaluations = 1;
    finish_outcome(out);
    sim::cleanup();
    return out;
}

// ------------------------------------------------------------------ engine D: threaded writer under seeded schedules (C06, C07, C08)
extern "C" {
void race_begin(uint64_t seed, int k) __attribute__((weak));
void race_end() __attribute__((weak));
int race_report_count() __attribute__((weak));
const char *race_report(int i) __attribute__((weak));
void race_stats(uint64_t *a, uint64_t *b, uint64_t *c, uint64_t *d) __attribute__((weak));
}
static bool is_msg_kind(int k) { return k == OP_FSR || k == OP_ANNO || k == OP_UTC || k == OP_USER || k == OP_OMIT; }

static RunOutcome check_twr(const std::string &prop, const Plan &P) {
    RunOutcome out; Violations all;
    setup_world(P);
    count_ops(P, out);
    if (P.use_twr == 2) {     // C08 direct driver
        std::vector<std::string> errs; uint64_t n_ok = 0, n_fail = 0, n_pop = 0;
        RunStatus st = exec::mrb_driver(P, errs, &n_ok, &n_fail, &n_pop);
        if (st != RUN_OK) add_violation(all, "C08", std::string("driver_") + sim::status_name(st), "queue driver did not finish");
        for (auto &e : errs) { size_t bar = e.find('|'); add_violation(all, "C08", e.substr(0, bar), "direct driver: " + e.substr(bar + 1)); }
        for (auto &e : mon::queue_violations) { size_t bar = e.find('|'); add_violation(all, "C08", e.substr(0, bar), "direct driver: " + e.substr(bar + 1)); }
        out.ctr["driver_runs"]++; out.ctr["driver_alloc_ok"] += n_ok; out.ctr["driver_alloc_fail"] += n_fail; out.ctr["driver_pops"] += n_pop;
        out.ctr["queue_wraps"] += mon::n_wrap; out.ctr["queue_resets"] += mon::n_reset; out.ctr["queue_states_total"] = mon::queue_states.size();
        out.nontrivial = mon::n_wrap + mon::n_reset > 0 && n_fail > 0;
        out.sample = fmt("direct driver: capacity %u, %llu allocs ok, %llu failed, %llu pops, %llu wraps", P.mrb_size, (unsigned long long) n_ok, (unsigned long long) n_fail, (unsigned long long) n_pop, (unsigned long long) mon::n_wrap);
        for (auto &v : all) if (v.prop == prop && out.viol.size() < 8) out.viol.push_back(v);
        finish_outcome(out); sim::cleanup(); return out;
    }
    if (race_begin) { static const int ks[] = {0, 2, 8, 32}; race_begin(P.seed, ks[(P.seed >> 7) & 3]); }
    WriterResult wr = exec::write_twr(P, PATH_A, true);
    if (race_end) {
        race_end();
        for (int i = 0; i < race_report_count(); ++i) add_violation(all, "C06", "data_race", race_report(i));
        uint64_t a1, a2, a3, a4; race_stats(&a1, &a2, &a3, &a4);
        out.ctr["race_accesses"] += a1; out.ctr["race_accesses_in_scope"] += a2; out.ctr["race_volatile_accesses"] += a3; out.ctr["race_access_preemptions"] += a4;
    }
    bool clock_jumped = sim::fault_counts[F_CLOCK_JUMP] > 0;
    out.ctr["queue_wraps"] += mon::n_wrap; out.ctr["queue_resets"] += mon::n_reset; out.ctr["queue_alloc_fail"] += mon::n_alloc_fail; out.ctr["queue_alloc_ok"] += mon::n_alloc_ok;
    out.ctr["queue_max_count"] = std::max<uint64_t>(out.ctr["queue_max_count"], mon::max_count); out.ctr["queue_states_total"] = mon::queue_states.size();
    for (auto &e : mon::queue_violations) { size_t bar = e.find('|'); add_violation(all, "C08", e.substr(0, bar), e.substr(bar + 1)); add_violation(all, "C06", "queue_" + e.substr(0, bar), e.substr(bar + 1)); }
    if (wr.status != RUN_OK) {
        add_violation(all, "C07", wr.status == RUN_DEADLOCK ? "deadlock" : "no_progress", fmt("threaded-writer program did not finish: %s; %s", sim::status_name(wr.status), sim::deadlock_info().c_str()));
    } else if (wr.open_rc == 0) {
        // ---- bookkeeping
        size_t n_drop = 0, n_timeout = 0;
        std::map<int, int> enq_by_op;
        for (auto &e : mon::enq) if (e.op >= 0) enq_by_op[e.op]++;
        for (size_t i = 0; i < P.ops.size(); ++i) {
            const Op &o = P.ops[i]; const OpRec &r = wr.rec[i];
            if (!r.done) continue;
            if (is_msg_kind(o.kind)) {
                int n = enq_by_op.count((int) i) ? enq_by_op[(int) i] : 0;
                if (r.rc == 0 && n != 1) add_violation(all, "C06", n == 0 ? "accepted_call_not_enqueued" : "accepted_call_enqueued_twice", fmt("op %zu '%s' returned 0 but was enqueued %d times", i, o.to_text().c_str(), n), (int) i);
                if (r.rc != 0 && n != 0) add_violation(all, "C06", "failed_call_left_a_message", fmt("op %zu '%s' returned %d but a message was enqueued", i, o.to_text().c_str(), r.rc), (int) i);
                if (r.rc != 0) { ++n_drop; sim::fault_counts[F_DROP]++; }
            }
            if (o.kind == OP_FLUSH && r.rc != 0) ++n_timeout;
        }
        out.ctr["calls_rejected_busy"] += n_drop; out.ctr["flush_timeouts"] += n_timeout;
        // ---- (a) applied history = accepted calls in enqueue order
        std::vector<const mon::Enq *> E; for (auto &e : mon::enq) if (e.op >= 0 && e.op < (int) P.ops.size() && P.ops[e.op].kind != OP_CLOSE) E.push_back(&e);
        std::vector<mon::Applied *> Am; for (auto &a : mon::applied) if (is_msg_kind(a.kind) || a.kind == OP_FLUSH) Am.push_back(&a);
        if (wr.closed && E.size() != Am.size()) add_violation(all, "C06", E.size() > Am.size() ? "accepted_message_lost" : "message_applied_more_than_once", fmt("%zu messages were enqueued, %zu were applied to the writer", E.size(), Am.size()));
        for (size_t i = 0; i < E.size() && i < Am.size(); ++i) {
            const Op &o = P.ops[E[i]->op]; mon::Applied &a = *Am[i]; a.op = E[i]->op;
            bool ok = a.kind == o.kind; std::string why = "kind";
            if (ok) {
                std::vector<uint8_t> pl; op_payload(o, pl);
                switch (o.kind) {
                    case OP_FSR: { size_t nb = (size_t) (((uint64_t) o.n * dt_bits[o.dtype] + 7) / 8); ok = a.sig == o.sig && a.a == o.a && a.n == o.n && a.payload_len == nb && a.payload_hash == fnv1a(pl.data(), nb); why = "fsr arguments/payload"; break; }
                    case OP_ANNO: ok = a.sig == o.sig && a.a == o.a && a.at == o.at && a.grp == o.grp && a.st == o.st && a.ybits == o.ybits && a.payload_len == pl.size() && a.payload_hash == fnv1a(pl.data(), pl.size()); why = "annotation arguments/payload"; break;
                    case OP_UTC: ok = a.sig == o.sig && a.a == o.a && a.b == o.b; why = "utc arguments"; break;
                    case OP_USER: ok = a.meta == o.meta && a.st == o.st && a.payload_len == pl.size() && a.payload_hash == fnv1a(pl.data(), pl.size()); why = "user data arguments/payload"; break;
                    case OP_OMIT: ok = a.sig == o.sig && a.n == o.en; why = "omit arguments"; break;
                    default: break;
                }
            }
            if (!ok) { add_violation(all, "C06", "applied_history_differs", fmt("message #%zu: enqueued by op %d '%s' but the writer thread applied kind=%s sig=%d a=%lld n=%lld (%s differ): reordered, duplicated or mixed", i, E[i]->op, o.to_text().c_str(), op_names[a.kind], a.sig, (long long) a.a, (long long) a.n, why.c_str()), E[i]->op); break; }
        }
        // per-producer program order is preserved in the enqueue order
        { std::map<int, int> last; for (auto *e : E) { int pr = P.ops[e->op].prod; if (last.count(pr) && last[pr] > e->op) { add_violation(all, "C06", "producer_order_violated", fmt("producer %d: op %d enqueued after op %d", pr, e->op, last[pr])); break; } last[pr] = e->op; } }
        SFile *f = simfs::get(PATH_A);
        std::vector<uint8_t> twr_bytes = f ? f->bytes : std::vector<uint8_t>();
        std::vector<WOp> twr_log = f ? f->log : std::vector<WOp>();
        if (wr.closed && all.empty()) {
            // ---- (c) logical content = model of the accepted calls (independent decoder)
            Model M;
            for (auto &a : mon::applied) if ((a.kind == OP_SRC || a.kind == OP_SIG) && a.rc == 0 && a.op >= 0) M.apply(P.ops[a.op]);
            for (auto *e : E) { const Op &o = P.ops[e->op]; if (is_msg_kind(o.kind) && wr.rec[e->op].rc == 0 && M.expect(o) == 0) M.apply(o); }
            specdec::Decoded d; specdec::decode(twr_bytes, d, true);
            for (auto &e : d.errors) { size_t bar = e.find('|'); add_violation(all, "C07", "close_file_not_complete", "after jls_twr_close: " + e.substr(bar + 1)); add_violation(all, "C06", "format_" + e.substr(0, bar), e.substr(bar + 1)); }
            if (d.errors.empty()) {
                std::vector<std::string> ce; specdec::ContentOpts co;
                // an omission request still in effect at close drops the tail of the last partial block (KF-C15-onrequest-omit-drops-tail): completeness is then not judged here
                for (auto *e : E) if (P.ops[e->op].kind == OP_OMIT && P.ops[e->op].en) co.samples_must_be_complete = false;
                specdec::compare_with_model(twr_bytes, d, M, co, ce);
                for (auto &e : ce) { size_t bar = e.find('|'); add_violation(all, "C06", e.substr(0, bar), "threaded writer file vs accepted calls: " + e.substr(bar + 1)); }
            }
            // ---- (b) bytes = synchronous replay of the applied history
            Plan R = P; R.ops.clear(); R.use_twr = 0; R.reads.clear();
            for (auto &a : mon::applied) {
                if (a.kind == OP_CLOSE) continue;
                if (a.kind == OP_FLUSH) { Op fo; fo.kind = OP_FLUSH; R.ops.push_back(fo); continue; }
                if (a.op >= 0 && a.op < (int) P.ops.size()) R.ops.push_back(P.ops[a.op]);
            }
            { Op c; c.kind = OP_CLOSE; R.ops.push_back(c); }
            FaultCfg none; sim::set_faults(none); simfs::set_latency(0, 0);
            WriterResult sr = exec::write_sync(R, "/sim/replay.jls", false);
            SFile *rf = simfs::get("/sim/replay.jls");
            if (sr.status != RUN_OK || !rf) add_violation(all, "C06", "sync_replay_failed", "harness: synchronous replay of the applied history did not finish");
            else if (rf->bytes != twr_bytes) {
                size_t k = 0; while (k < rf->bytes.size() && k < twr_bytes.size() && rf->bytes[k] == twr_bytes[k]) ++k;
                add_violation(all, "C06", "file_differs_from_sync_replay", fmt("file written through the threaded writer (%zu bytes) differs from the synchronous replay of the same applied calls (%zu bytes) at offset %zu", twr_bytes.size(), rf->bytes.size(), k));
            }
            out.ctr["sync_replays"]++;
        }
        // ---- C07 flush: success => everything accepted before the call is applied and fsynced
        for (size_t i = 0; i < P.ops.size(); ++i) {
            if (P.ops[i].kind != OP_FLUSH || !wr.rec[i].done || wr.rec[i].rc != 0) continue;
            const OpRec &fr = wr.rec[i];
            uint64_t max_applied_end = fr.seq_invoke; bool missing = false; int missing_op = -1;
            for (size_t q = 0; q < P.ops.size(); ++q) {
                if (!is_msg_kind(P.ops[q].kind) || !wr.rec[q].done || wr.rec[q].rc != 0 || wr.rec[q].seq_return >= fr.seq_invoke) continue;
                const mon::Applied *ap = nullptr; for (auto &a : mon::applied) if (a.op == (int) q && a.kind == P.ops[q].kind) { ap = &a; break; }
                if (!ap || ap->seq_end == 0 || ap->seq_end > fr.seq_return) { missing = true; missing_op = (int) q; break; }
                max_applied_end = std::max(max_applied_end, ap->seq_end);
            }
            if (missing) { add_violation(all, "C07", "flush_returned_before_applied", fmt("flush op %zu returned 0 at seq %llu but op %d '%s', accepted before the flush was invoked, had not been applied", i, (unsigned long long) fr.seq_return, missing_op, P.ops[missing_op].to_text().c_str()), (int) i); continue; }
            bool synced = false; for (auto &w : twr_log) if (w.kind == W_FSYNC && w.seq > max_applied_end && w.seq < fr.seq_return) synced = true;
            if (!synced) add_violation(all, "C07", "flush_returned_before_fsync", fmt("flush op %zu returned 0 at seq %llu: no fsync completed after the last earlier message was applied (seq %llu)", i, (unsigned long long) fr.seq_return, (unsigned long long) max_applied_end), (int) i);
            out.ctr["flushes_checked"]++;
        }
        // ---- C07 close
        if (wr.closed) {
            if (simfs::open_fd_count() != 0) add_violation(all, "C07", "close_leaves_descriptor", fmt("%d descriptors open after jls_twr_close", simfs::open_fd_count()));
            bool writer_close_seen = false; for (auto &a : mon::applied) if (a.kind == OP_CLOSE) writer_close_seen = true;
            if (!writer_close_seen) add_violation(all, "C07", "close_without_writer_close", "jls_twr_close returned but jls_wr_close was never called");
        }
        // ---- C07 liveness: documented per-call bounds (virtual time the caller was not itself stalled)
        if (!clock_jumped) for (size_t i = 0; i < P.ops.size(); ++i) {
            const Op &o = P.ops[i]; const OpRec &r = wr.rec[i];
            if (!r.done) continue;
            int64_t el = r.t_return - r.t_invoke;
            for (auto &ev : sim::events()) if (ev.kind == EV_FAULT && ev.sub == F_STALL) { int64_t s0 = std::max(ev.t, r.t_invoke), s1 = std::min(ev.t + ev.b, r.t_return); if (s1 > s0) el -= (s1 - s0); }
            int64_t bound = is_msg_kind(o.kind) ? 5050000000LL : o.kind == OP_FLUSH ? 25100000000LL : -1;
            if (P.faults.latency == 3) bound = bound < 0 ? -1 : bound + 5000000000LL;   // the caller's own lock/signal can sit behind one pathological I/O of the writer thread
            if (bound > 0 && el > bound) add_violation(all, "C07", "call_exceeds_documented_timeout", fmt("op %zu '%s' took %.3f s of virtual time (bound %.2f s), rc=%d", i, o.to_text().c_str(), el / 1e9, bound / 1e9, r.rc), (int) i);
        }
        bool twr_switch = sim::n_switches() > 2;
        if (prop == "C06") out.nontrivial = twr_switch && (mon::n_wrap + mon::n_reset + mon::n_alloc_fail > 0);
        else if (prop == "C07") { bool has_flush = false; for (auto &o : P.ops) if (o.kind == OP_FLUSH) has_flush = true; out.nontrivial = twr_switch && (has_flush || mon::n_alloc_fail > 0); }
        else out.nontrivial = mon::n_wrap > 0 && mon::n_alloc_fail > 0;
        out.sample = fmt("%d producer(s), queue %u bytes, %zu ops, %zu enqueued, %zu applied, %llu wraps, %llu full, policy %d", P.producers, P.mrb_size, P.ops.size(), mon::enq.size(), mon::applied.size(), (unsigned long long) mon::n_wrap, (unsigned long long) mon::n_alloc_fail, P.pol.kind);
    } else add_violation(all, "C06", "twr_open_failed", fmt("jls_twr_open rc=%d", wr.open_rc));
    for (auto &v : all) if (v.prop == prop && out.viol.size() < 8) out.viol.push_back(v);
    finish_outcome(out);
    sim::cleanup();
    return out;
}

#include "checks_more.inc"

RunOutcome run_check(const std::string &prop, const Plan &P, int tier) {
    (void) tier;
    if (prop == "C05" || prop == "C14") return check_format(prop, P);
    if (prop == "C03" || prop == "C19") return check_crash(prop, P, tier);
    if (prop == "C04") return check_corrupt(prop, P, tier);
    if (prop == "C06" || prop == "C07" || prop == "C08") return check_twr(prop, P);
    if (prop == "C15") return check_omit(prop, P);
    if (prop == "C17") return check_copy(prop, P, tier);
    if (prop == "C10") return check_misuse(prop, P);
    if (prop == "C01" || prop == "C02" || prop == "C09" || prop == "C11" || prop == "C12" || prop == "C13") return check_roundtrip(prop, P);
    RunOutcome out;
    add_violation(out.viol, prop, "no_such_check", "check not implemented");
    return out;
}
