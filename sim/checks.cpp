#include "checks.h"
#include "oracles.h"
#include "mon.h"
#include "specdec.h"
#include <cstdio>
#include <cstdarg>
#include <algorithm>
#include <set>

const char *all_checks[] = {"C01", "C02", "C03", "C04", "C05", "C06", "C07", "C08", "C09", "C10", "C11", "C12", "C13", "C14", "C15", "C17", "C19", nullptr};
bool check_known(const std::string &prop) { for (int i = 0; all_checks[i]; ++i) if (prop == all_checks[i]) return true; return false; }

static std::string fmt(const char *f, ...) __attribute__((format(printf, 1, 2)));
static std::string fmt(const char *f, ...) { char b[640]; va_list ap; va_start(ap, f); vsnprintf(b, sizeof b, f, ap); va_end(ap); return b; }

const uint64_t STEP_BUDGET = 400000000ULL;
static const char *PATH_A = "/sim/a.jls";

struct AResult {
    WriterResult wr; Model m; Dump d; RunStatus rd_status = RUN_OK;
    bool writer_ok = false;
    std::vector<uint8_t> closed_bytes;
};

static void finish_outcome(RunOutcome &out) {
    out.decisions = sim::decisions();
    out.hash = sim::run_hash(); out.sched_hash = sim::sched_hash(); out.sim_ns = sim::sim_time_elapsed_ns();
    out.ctr["candidates"] += sim::n_candidates(); out.ctr["switches"] += sim::n_switches();
    out.ctr["fs_calls"] += simfs::calls; out.ctr["allocs"] += simalloc::n_allocs();
    for (int i = 0; i < F_COUNT; ++i) if (sim::fault_counts[i]) out.ctr[std::string("fault_") + fault_names[i]] += sim::fault_counts[i];
    for (int i = 0; i < 16; ++i) if (probes::count[i]) out.ctr[std::string("probe_") + probes::names[i]] += probes::count[i];
}

static void setup_world(const Plan &P) {
    sim::reset(P.seed, P.fill_key);
    sim::budget_set(STEP_BUDGET);
    sim::set_policy(P.pol);
    sim::set_faults(P.faults);
    if (P.has_decisions) sim::set_replay_decisions(&P.decisions);
    simfs::set_latency(P.faults.latency, P.seed);
    probes::install();
}

// write the program (sync or threaded), build the model from accepted ops, check acceptance against the conforming expectation
static bool write_phase(const Plan &P, const std::string &prop, AResult &A, RunOutcome &out, bool log_writes, bool conforming) {
    A.wr = P.use_twr ? exec::write_twr(P, PATH_A, log_writes) : exec::write_sync(P, PATH_A, log_writes);
    if (A.wr.status != RUN_OK) {
        add_violation(out.viol, prop, std::string("writer_") + sim::status_name(A.wr.status), fmt("writer program did not finish: %s %s", sim::status_name(A.wr.status), sim::deadlock_info().c_str()));
        return false;
    }
    if (A.wr.open_rc) { add_violation(out.viol, prop, "writer_open_failed", fmt("rc=%d", A.wr.open_rc)); return false; }
    for (size_t i = 0; i < P.ops.size(); ++i) {
        const Op &o = P.ops[i]; const OpRec &r = A.wr.rec[i];
        if (!r.done) continue;
        int e = A.m.expect(o);
        if (r.rc == 0) {
            if (e == 1 && conforming) add_violation(out.viol, prop, "accepted_invalid_call", fmt("op %zu '%s' returned 0", i, o.to_text().c_str()), (int) i);
            A.m.apply(o);
        } else if (e == 0 && conforming && !(P.use_twr && (o.kind != OP_SRC && o.kind != OP_SIG))) {
            add_violation(out.viol, prop, "rejected_valid_call", fmt("op %zu '%s' returned %d", i, o.to_text().c_str(), r.rc), (int) i);
        }
    }
    A.writer_ok = true;
    SFile *f = simfs::get(PATH_A);
    if (f) A.closed_bytes = f->bytes;
    return true;
}

static bool read_phase(const Plan &P, const std::string &prop, AResult &A, RunOutcome &out, bool with_cold) {
    SFile *f = simfs::get(PATH_A);
    if (f) f->latch_ro = true;
    A.rd_status = exec::read_dump(P, PATH_A, A.d, with_cold);
    if (A.rd_status != RUN_OK) {
        add_violation(out.viol, prop, std::string("reader_") + sim::status_name(A.rd_status), fmt("reader program did not finish (%s) at read op %d", sim::status_name(A.rd_status), sim::cur_op_of(0)));
        return false;
    }
    return true;
}

static void count_ops(const Plan &P, RunOutcome &out) {
    for (auto &o : P.ops) out.ctr[std::string("op_") + op_names[o.kind]]++;
    for (auto &o : P.reads) out.ctr[std::string("rd_") + op_names[o.kind]]++;
    if (P.use_twr) out.ctr["runs_threaded_writer"]++; else out.ctr["runs_sync_writer"]++;
}

// ------------------------------------------------------------------ engine A: fault-free store round trip
static RunOutcome check_roundtrip(const std::string &prop, const Plan &P) {
    RunOutcome out; AResult A;
    setup_world(P);
    count_ops(P, out);
    if (write_phase(P, prop, A, out, false, true) && read_phase(P, prop, A, out, true)) {
        oracle::check_dump(prop, A.m, P, A.d, out.viol, true);
        // per-property non-triviality
        int64_t total = 0; size_t nreads = 0; bool multi_block = false, any_gap = false, any_omit = false;
        for (auto &kv : A.m.signals) { total += kv.second.length(); NormDef nd = approx_norm(kv.second.dtype, kv.second.p); if (kv.second.length() > nd.spd) multi_block = true; if (!kv.second.gaps.empty()) any_gap = true; if (!kv.second.omit_events.empty()) any_omit = true; }
        for (auto &c : A.d.calls) if (!c.skipped && c.rc == 0) ++nreads;
        size_t na = 0, nu = 0; for (auto &kv : A.m.signals) { na += kv.second.annos.size(); nu += kv.second.utcs.size(); }
        if (prop == "C01") out.nontrivial = multi_block && nreads >= 3;
        else if (prop == "C02") out.nontrivial = multi_block && nreads >= 2;
        else if (prop == "C09") out.nontrivial = any_gap || out.ctr.count("probe_fsr_dup");
        else if (prop == "C11") out.nontrivial = na >= 3;
        else if (prop == "C12") out.nontrivial = nu >= 2;
        else if (prop == "C13") out.nontrivial = A.m.signals.size() >= 2 && nreads >= 2;
        else out.nontrivial = total > 0;
        (void) any_omit;
        out.ctr["samples_written"] += (uint64_t) total;
        out.sample = fmt("%zu signals, %lld samples, %zu ops, %zu reads%s", A.m.signals.size() - 1, (long long) total, P.ops.size(), P.reads.size(), P.use_twr ? ", threaded writer" : "");
        SFile *f = simfs::get(PATH_A);
        if (f && f->latch_violations) out.ctr["c19_latch_violations"] += f->latch_violations;
    }
    finish_outcome(out);
    sim::cleanup();
    return out;
}

RunOutcome run_check(const std::string &prop, const Plan &P, int tier) {
    (void) tier;
    if (prop == "C01" || prop == "C02" || prop == "C09" || prop == "C11" || prop == "C12" || prop == "C13") return check_roundtrip(prop, P);
    RunOutcome out;
    add_violation(out.viol, prop, "no_such_check", "check not implemented");
    return out;
}
