#!/usr/bin/env python3
"""Controller for the jls deterministic-simulation checks.

  simctl.py check <Cxx> --tier quick|thorough [--budget-s N] [--workers N] [--variant asan|plain|race|swcrc]
  simctl.py replay <replay.json|plan>
  simctl.py selftest determinism [--props C01,C06] [--seeds N]

Exit codes: 0 property held on everything explored (known findings are printed as KNOWN-FINDING lines),
1 with "VIOLATION property=<id> replay=<path>" lines, 2 harness error (build failure, nondeterminism).
"""
import json, os, re, subprocess, sys, time, tempfile, shutil, hashlib, select, signal

ROOT = os.path.dirname(os.path.abspath(__file__))
BUILD = os.environ.get('VERIF_BUILD_DIR', os.path.join(ROOT, 'build'))      # developer aid (seeded-change evaluation): another build directory ...
REPO_OVERRIDE = os.environ.get('VERIF_REPO')
SRC_PREFIX = (REPO_OVERRIDE or '/repo').rstrip('/') + '/src/'                                 # ... and another source tree than /repo; registered commands never set these
TMP = os.path.join(BUILD, 'tmp')
EVID = os.environ.get('VERIF_EVIDENCE_DIR', os.path.join(ROOT, 'evidence'))
REPLAYS = os.path.join(ROOT, 'replays')
KNOWN = os.path.join(ROOT, 'known_findings.json')

LEVEL = {'C03': 'fault_enumeration', 'C04': 'fault_enumeration', 'C19': 'fault_enumeration'}
VARIANTS = {  # property -> variants used per tier (first is the primary)
    'C06': {'quick': ['asan', 'race'], 'thorough': ['asan', 'race']},
    'C07': {'quick': ['asan'], 'thorough': ['asan', 'race']},
    'C04': {'quick': ['asan'], 'thorough': ['asan', 'swcrc']},
    'C03': {'quick': ['asan'], 'thorough': ['asan', 'swcrc']},
}
# thorough runs of the store round-trip properties spend a quarter of their budget on the gcc -O2 build without sanitizers:
# the same oracles under another compiler and optimisation level (the sanitizer build stays the primary)
for _p in ('C01', 'C02', 'C05', 'C09', 'C11', 'C12', 'C13', 'C14', 'C15'):
    VARIANTS[_p] = {'quick': ['asan'], 'thorough': ['asan', 'plain']}
DEFAULT_BUDGET = {'quick': 45, 'thorough': 600}
RULES = {
    'C01': 'seeded writer program (types x definitions x partitions x first ids) + read windows; non-trivial = some signal spans more than one storage block and >= 3 reads succeeded; distinct = distinct run hash (hash of the event log incl. every fs op and return code)',
    'C02': 'seeded writer program + statistics requests selecting every level present; non-trivial = multi-block signal and >= 2 statistics calls answered; distinct = run hash',
    'C03': 'per seeded program: every write boundary and byte prefixes of the backend write log; evaluations = crash images opened; non-trivial = image differs from the closed and the empty file and the open reached the repair path or failed; distinct = image hash',
    'C04': 'per seeded closed file: bit flips / bursts / zeroed ranges per protected region; evaluations = altered images read back with the whole battery; non-trivial = alteration inside a protected region and the battery ran; distinct = (file hash, alteration) hash',
    'C05': 'every file produced by sync writer, threaded writer, copy and repair walked by the independent decoder; non-trivial = file has >= 1 summary level and >= 20 chunks; distinct = file content hash',
    'C06': 'threaded-writer programs under seeded schedules and faults; non-trivial = >= 1 task switch inside a twr call and >= 1 queue wrap/full/reset event; distinct = schedule hash',
    'C07': 'as C06 with flush/close placement and stalls; non-trivial = >= 1 flush or a full queue at close and >= 1 task switch; distinct = schedule hash',
    'C08': 'queue monitor in threaded-writer runs plus a two-task direct driver on bare queues; non-trivial = >= 1 wrap and >= 1 failed alloc; distinct = run hash; states = distinct (capacity, head, tail, count)',
    'C09': 'writer programs with gaps and overlaps; non-trivial = >= 1 gap or overlap actually taken; distinct = run hash',
    'C10': 'misuse call sequences over writer/reader/twr/copy; non-trivial = >= 1 call rejected and >= 1 accepted; distinct = run hash',
    'C11': 'annotation programs; non-trivial = >= 3 annotations written; distinct = run hash',
    'C12': 'UTC programs; non-trivial = >= 2 UTC entries; distinct = run hash',
    'C13': 'definition / user-data programs; non-trivial = >= 2 signals and >= 2 reads; distinct = run hash',
    'C14': 'complete backend write history of writer programs classified by the write-once monitor; non-trivial = >= 1 in-place write observed; distinct = run hash',
    'C15': 'twin runs with / without omission; non-trivial = >= 1 block omitted; distinct = run hash',
    'C17': 'copy of generated files, closed and unclosed; non-trivial = source has samples and >= 1 other item; distinct = run hash',
    'C19': 'read-only latch on closed files (every read program) and second/third open of every crash image that opened; evaluations = sessions; non-trivial = the first open repaired; distinct = image hash',
}
ASSUMPTIONS = [
    'reference model and tolerance constants (sim/model.cpp, sim/oracles.cpp)',
    'SimFS implements the POSIX subset used by backend_posix.c; crash model = process stop (all issued writes present, last one cut at any byte)',
    'scheduler pthread semantics: non-recursive mutexes, cond_signal wakes >= 1 waiter, spurious wake-ups allowed, no FIFO guarantee',
    'sequential consistency for race-free executions; compiler instrumentation (trace-pc-guard / tsan callbacks) complete for library code',
    'library built from /repo/src with -DJLS_VERIF (hooks: queue size, initial buffer size), clang -O1 + ASan/UBSan(bounds,null) unless stated',
]


def sh(cmd, **kw):
    return subprocess.run(cmd, shell=isinstance(cmd, str), **kw)


def build(variant):
    extra = ([f'REPO={REPO_OVERRIDE}'] if REPO_OVERRIDE else []) + ([f'B={BUILD}'] if 'VERIF_BUILD_DIR' in os.environ else [])
    r = sh(['make', '-C', ROOT, '-j16', variant] + extra, stdout=subprocess.PIPE, stderr=subprocess.STDOUT, text=True)
    if r.returncode != 0:
        sys.stdout.write(r.stdout[-4000:])
        print('HARNESS-ERROR: build failed for variant', variant)
        sys.exit(2)
    return os.path.join(BUILD, variant, 'jlssim')


def load_known():
    if not os.path.exists(KNOWN):
        return []
    return json.load(open(KNOWN)).get('findings', [])


def match_known(known, prop, cls, detail):
    for k in known:
        if k.get('status') != 'open' or k.get('replay_only'):
            continue
        if k.get('property') != prop and prop not in k.get('also_properties', []):
            continue
        m = k.get('match', {})
        if 'cls' in m and not re.search(m['cls'], cls):
            continue
        if 'detail' in m and not re.search(m['detail'], detail or ''):
            continue
        return k
    return None


class Worker:
    def __init__(self, exe, prop, tier, base, wid, nworkers, deadline_s, variant):
        self.exe, self.prop, self.tier, self.base, self.wid, self.n = exe, prop, tier, base, wid, nworkers
        self.variant = variant
        self.next_idx = wid
        self.deadline = deadline_s
        self.cur_file = os.path.join(TMP, f'cur_{prop}_{variant}_{wid}.plan')
        self.err_file = os.path.join(TMP, f'err_{prop}_{variant}_{wid}.txt')
        self.proc = None
        self.buf = b''
        self.cur_idx = None
        self.cur_seed = None
        self.done = False
        self.t_end = time.time() + deadline_s

    def start(self):
        left = self.t_end - time.time()
        if left <= 0.5:
            self.done = True
            return
        self.errf = open(self.err_file, 'wb')
        cmd = [self.exe, 'run', self.prop, '--base', str(self.base), '--start', str(self.next_idx), '--stride', str(self.n),
               '--count', '100000000', '--tier', self.tier, '--deadline-s', f'{left:.1f}', '--current-file', self.cur_file]
        self.proc = subprocess.Popen(cmd, stdout=subprocess.PIPE, stderr=self.errf, cwd=ROOT)
        os.set_blocking(self.proc.stdout.fileno(), False)


def asan_signature(err_path):
    try:
        txt = open(err_path, 'rb').read().decode('utf-8', 'replace')
    except OSError:
        return ''
    m = re.search(r'SUMMARY: \w+Sanitizer: (.*)', txt)
    sig = m.group(1).strip() if m else ''
    sig = re.sub(r'\(/verif/build[^)]*\)', '', sig)
    sig = re.sub(r'\(BuildId: \w+\)', '', sig)
    # first frames inside /repo/src for a stable call site
    frames = re.findall(r'#\d+ 0x[0-9a-f]+ in (\w+) ' + re.escape(SRC_PREFIX) + r'(\w+\.c):(\d+)', txt)
    if frames:
        sig += ' @ ' + ' < '.join(f'{fn}({f})' for fn, f, _ in frames[:3])
    m2 = re.search(r'runtime error: (.*)', txt)
    if m2 and not sig:
        sig = 'ubsan: ' + m2.group(1)
    return re.sub(r'\s+', ' ', sig).strip()


def sanitizer_class(err_path, fallback):
    try:
        txt = open(err_path, 'rb').read().decode('utf-8', 'replace')
    except OSError:
        txt = ''
    typ, func = fallback, '?'
    m = re.search(r'SUMMARY: \w+: (\S+)', txt)
    if m:
        typ = m.group(1)
    m = re.search(r' in (\S+) ' + re.escape(SRC_PREFIX), txt)
    if m:
        func = m.group(1)
    if typ in ('heap-buffer-overflow', 'heap-use-after-free', 'SEGV', 'stack-buffer-overflow', 'global-buffer-overflow', 'use-after-poison', 'unknown-crash',
               'memcpy-param-overlap', 'negative-size-param', 'stack-use-after-scope', 'dynamic-stack-buffer-overflow') or typ.startswith('signal'):
        typ = 'mem'       # which of these an out-of-bounds access becomes depends on the heap layout of the process
    return f'sanitizer:{typ}:{func}'


def run_workers(exe, prop, tier, base, nworkers, budget_s, variant):
    os.makedirs(TMP, exist_ok=True)
    ws = [Worker(exe, prop, tier, base, i, nworkers, budget_s, variant) for i in range(nworkers)]
    for w in ws:
        w.start()
    results = []      # outcome dicts
    crashes = []      # process-level deaths
    edges = 0
    hard_end = time.time() + budget_s + 120
    while any(not w.done for w in ws):
        if time.time() > hard_end:
            for w in ws:
                if w.proc and w.proc.poll() is None:
                    w.proc.kill()
                    crashes.append({'idx': w.cur_idx, 'seed': w.cur_seed, 'cls': 'wall_timeout', 'detail': 'worker exceeded the wall-clock safety net', 'plan': read_text(w.cur_file), 'variant': variant, 'harness': True})
                w.done = True
            break
        fds = [w.proc.stdout for w in ws if not w.done and w.proc]
        if not fds:
            break
        rl, _, _ = select.select(fds, [], [], 0.5)
        for w in ws:
            if w.done or not w.proc:
                continue
            if w.proc.stdout in rl:
                try:
                    chunk = w.proc.stdout.read()
                except BlockingIOError:
                    chunk = None
                if chunk:
                    w.buf += chunk
                    while b'\n' in w.buf:
                        line, w.buf = w.buf.split(b'\n', 1)
                        try:
                            d = json.loads(line)
                        except Exception:
                            continue
                        if 'start' in d:
                            w.cur_idx, w.cur_seed = d['start'], d['seed']
                        elif 'done' in d:
                            edges = max(edges, d.get('edges', 0))
                        elif 'viol' in d:
                            d['variant'] = variant
                            results.append(d)
                            w.next_idx = d['i'] + w.n
                            w.cur_idx = None
            rc = w.proc.poll()
            if rc is not None:
                # drain
                try:
                    rest = w.proc.stdout.read()
                    if rest:
                        w.buf += rest
                        for line in w.buf.split(b'\n'):
                            try:
                                d = json.loads(line)
                            except Exception:
                                continue
                            if 'start' in d:
                                w.cur_idx, w.cur_seed = d['start'], d['seed']
                            elif 'done' in d:
                                edges = max(edges, d.get('edges', 0))
                            elif 'viol' in d:
                                d['variant'] = variant
                                results.append(d); w.next_idx = d['i'] + w.n; w.cur_idx = None
                        w.buf = b''
                except Exception:
                    pass
                w.errf.close()
                if rc == 0:
                    w.done = True
                    continue
                # died inside a run
                if rc == 77:
                    cls = sanitizer_class(w.err_file, 'report')
                elif rc < 0:
                    cls = sanitizer_class(w.err_file, 'signal%d' % (-rc))
                else:
                    cls = 'exit_%d' % rc
                crashes.append({'idx': w.cur_idx, 'seed': w.cur_seed, 'cls': cls, 'detail': asan_signature(w.err_file), 'plan': read_text(w.cur_file), 'variant': variant})
                if w.cur_idx is not None:
                    w.next_idx = w.cur_idx + w.n
                w.cur_idx = None
                w.start()
    return results, crashes, edges


def read_text(p):
    try:
        return open(p).read()
    except OSError:
        return ''


def replay_plan(exe, plan_text, tier, timeout=300):
    """Run a plan in a fresh process. Returns (classes:set, hash, detail_by_class, raw)."""
    os.makedirs(TMP, exist_ok=True)
    fd, path = tempfile.mkstemp(suffix='.plan', dir=TMP)
    os.write(fd, plan_text.encode()); os.close(fd)
    errp = path + '.err'
    try:
        with open(errp, 'wb') as ef:
            r = subprocess.run([exe, 'replay', path, '--tier', tier], stdout=subprocess.PIPE, stderr=ef, timeout=timeout, cwd=ROOT)
        classes, details, h = set(), {}, None
        for line in r.stdout.split(b'\n'):
            try:
                d = json.loads(line)
            except Exception:
                continue
            if 'viol' in d:
                h = d['hash']
                for v in d['viol']:
                    classes.add(v['cls']); details.setdefault(v['cls'], v['detail'])
        if r.returncode == 77:
            c = sanitizer_class(errp, 'report'); classes.add(c); details[c] = asan_signature(errp)
        elif r.returncode < 0:
            c = sanitizer_class(errp, 'signal%d' % (-r.returncode)); classes.add(c); details[c] = asan_signature(errp)
        elif r.returncode not in (0, 1):
            c = 'exit_%d' % r.returncode; classes.add(c); details[c] = ''
        return classes, h, details
    except subprocess.TimeoutExpired:
        return {'wall_timeout'}, None, {'wall_timeout': 'replay exceeded %ds' % timeout}
    finally:
        for p in (path, errp):
            try:
                os.unlink(p)
            except OSError:
                pass


def shrink_plan(exe, plan_text, cls, tier, timeout=900):
    os.makedirs(TMP, exist_ok=True)
    fd, path = tempfile.mkstemp(suffix='.plan', dir=TMP)
    os.write(fd, plan_text.encode()); os.close(fd)
    try:
        r = subprocess.run([exe, 'shrink', path, cls, '--tier', tier], stdout=subprocess.PIPE, stderr=subprocess.DEVNULL, timeout=timeout, text=True, cwd=ROOT)
        if r.returncode != 0:
            return None, r.stdout
        lines = r.stdout.split('\n')
        note = [l for l in lines if l.startswith('# minimised')]
        body = '\n'.join(l for l in lines if not l.startswith('#'))
        return body, (note[0] if note else '')
    except subprocess.TimeoutExpired:
        return None, 'shrink timeout'
    finally:
        try:
            os.unlink(path)
        except OSError:
            pass


def plan_of_result(exe, prop, seed, tier):
    r = subprocess.run([exe, 'gen', prop, str(seed), '--tier', tier], stdout=subprocess.PIPE, text=True, cwd=ROOT)
    return r.stdout


def sig_key(cls, detail):
    # group violations: class + call-site part of sanitizer signatures
    return cls


def write_replay(prop, variant, tier, seed, cls, detail, plan_text, minimised_note, run_hash, idx):
    global REPLAYS
    if os.environ.get('VERIF_NO_REPLAY_WRITE'):
        REPLAYS = os.path.join(BUILD, 'replays_scratch')
    os.makedirs(REPLAYS, exist_ok=True)
    name = f'{prop}-{seed}-{re.sub(r"[^A-Za-z0-9_]+", "_", cls)[:40]}.json'
    path = os.path.join(REPLAYS, name)
    json.dump({'property': prop, 'variant': variant, 'tier': tier, 'run_seed': seed, 'run_index': idx,
               'expect': {'class': cls, 'detail': detail}, 'run_hash': run_hash, 'minimised': minimised_note,
               'plan': plan_text.split('\n')}, open(path, 'w'), indent=1)
    return path


CORPUS = {'n': 0}


def cmd_check(prop, tier, budget_s, nworkers, variants, base_seed):
    t0 = time.time()
    known = load_known()
    exes = {v: build(v) for v in variants}
    all_results, all_crashes, edges = [], [], 0
    shares = {v: 1.0 / len(variants) for v in variants}
    if len(variants) == 2 and variants[1] == 'plain':
        shares = {variants[0]: 0.75, 'plain': 0.25}
    for v in variants:
        res, cr, e = run_workers(exes[v], prop, tier, base_seed, nworkers, budget_s * shares[v], v)
        all_results += res; all_crashes += cr; edges = max(edges, e)
    # ---- determinism sample: re-run some seeds in fresh processes, hashes must agree
    det_checked, det_bad = 0, []
    sample = [r for r in all_results if r['variant'] == variants[0]][:: max(1, len(all_results) // 12)][:12]
    def rerun(r):
        plan = plan_of_result(exes[r['variant']], prop, r['seed'], tier)
        return r, replay_plan(exes[r['variant']], plan, tier)
    from concurrent.futures import ThreadPoolExecutor
    with ThreadPoolExecutor(max_workers=max(1, min(nworkers, 12))) as ex:      # each re-run is its own fresh process
        for r, (classes, h, _) in ex.map(rerun, sample):
            det_checked += 1
            if h is not None and h != r['hash']:
                det_bad.append((r['seed'], r['hash'], h))
    if det_bad:
        print('HARNESS-ERROR: nondeterminism: run hash differs between worker and fresh process for', det_bad[:3])
        write_evidence(prop, tier, base_seed, all_results, all_crashes, [], [], time.time() - t0, variants, edges, det_checked, len(det_bad), nworkers)
        return 2
    # ---- collect violations
    groups = {}
    for r in all_results:
        for vio in r['viol']:
            if vio['cls'].startswith('sanitizer:') and vio['cls'].endswith(':?'):
                print('HARNESS-ERROR: sanitizer report without a library frame (seed %s): %s' % (r['seed'], vio['detail'][:200]))
                continue
            groups.setdefault(sig_key(vio['cls'], vio['detail']), []).append({'seed': r['seed'], 'idx': r['i'], 'cls': vio['cls'], 'detail': vio['detail'], 'variant': r['variant'], 'hash': r['hash'], 'plan': None})
    for c in all_crashes:
        if c['cls'].startswith('sanitizer:') and c['cls'].endswith(':?') and 'wr_' not in c['detail'] and SRC_PREFIX not in c['detail']:
            c['harness'] = True      # no library frame on the stack: the harness itself is at fault
        if c.get('harness'):
            print('HARNESS-ERROR: worker watchdog fired (seed %s)' % c['seed'])
            continue
        groups.setdefault(sig_key(c['cls'], c['detail']), []).append({'seed': c['seed'], 'idx': c['idx'], 'cls': c['cls'], 'detail': c['detail'], 'variant': c['variant'], 'hash': None, 'plan': c['plan']})
    violations_out, known_out, harness_err = [], [], False
    if os.environ.get('VERIF_TRIAGE'):      # developer aid: list the classes, no gating / minimisation
        for key, lst in sorted(groups.items()):
            print(f'TRIAGE class={key} hits={len(lst)} seed={lst[0]["seed"]} detail={lst[0]["detail"][:260]}')
        write_evidence(prop, tier, base_seed, all_results, all_crashes, [], [], time.time() - t0, variants, edges, det_checked, 0, nworkers)
        return 1 if groups else 0
    for key, lst in sorted(groups.items()):
        first = lst[0]
        k = match_known(known, prop, first['cls'], first['detail'])
        if k:
            known_out.append((k, first, len(lst)))
            continue
        exe = exes[first['variant']]
        plan = first['plan'] or plan_of_result(exe, prop, first['seed'], tier)
        # gate: fresh process twice, same class (and same hash when the run completes)
        c1, h1, d1 = replay_plan(exe, plan, tier)
        c2, h2, d2 = replay_plan(exe, plan, tier)
        if first['cls'] not in c1 or first['cls'] not in c2 or h1 != h2:
            print(f'HARNESS-ERROR: violation {first["cls"]} of seed {first["seed"]} did not reproduce identically in fresh processes ({sorted(c1)} {h1} / {sorted(c2)} {h2})')
            harness_err = True
            continue
        mini, note = shrink_plan(exe, plan, first['cls'], tier)
        final_plan = plan
        if mini:
            c3, h3, d3 = replay_plan(exe, mini, tier)
            if first['cls'] in c3:
                final_plan = mini
                detail = d3.get(first['cls'], first['detail'])
                # a minimised plan may now match a known finding exactly
                k2 = match_known(known, prop, first['cls'], detail)
                if k2:
                    known_out.append((k2, first, len(lst)))
                    continue
                first = dict(first, detail=detail, hash=h3)
            else:
                note = 'minimised plan did not reproduce in a fresh process; original plan kept'
        path = write_replay(prop, first['variant'], tier, first['seed'], first['cls'], first['detail'], final_plan, note, first['hash'], first['idx'])
        violations_out.append((first, path, len(lst)))
    # ---- regression corpus: the stored replays of repaired defects ("fixed" entries suppress nothing) must stay clean
    corpus_n = 0
    if not os.environ.get('VERIF_SKIP_CORPUS'):
        import glob
        files = sorted(glob.glob(os.path.join(ROOT, 'replays', f'fixed-{prop}-*')))
        def one(fp):
            plan = load_plan_file(fp)
            return fp, replay_plan(exes[variants[0]], plan, tier)
        from concurrent.futures import ThreadPoolExecutor
        with ThreadPoolExecutor(max_workers=max(1, nworkers)) as ex:
            for fp, (c, h, d) in ex.map(one, files):
                corpus_n += 1
                bad = [x for x in sorted(c) if not match_known(known, prop, x, d.get(x, ''))]
                if bad:
                    first = {'seed': 'corpus', 'idx': -1, 'cls': bad[0], 'detail': d.get(bad[0], ''), 'variant': variants[0], 'hash': h}
                    violations_out.append((first, fp, 1))
    CORPUS['n'] = corpus_n
    # ---- confirm open known findings that have stored replays (small separate quota)
    confirmed = []
    for k in known:
        if k.get('status') != 'open' or (k.get('property') != prop and prop not in k.get('also_properties', [])):
            continue
        already = any(kk is k for kk, _, _ in known_out)
        rp = k.get('replay')
        if rp and not already:
            p = os.path.join(ROOT, rp)
            if os.path.exists(p):
                plan = load_plan_file(p)
                var = k.get('variant', variants[0])
                exe = exes.get(var) or build(var)
                c, h, d = replay_plan(exe, plan, tier)
                if any(re.search(k['match'].get('cls', '.*'), x) for x in c):
                    confirmed.append(k)
    by_id = {}
    for k, first, n in known_out:
        e = by_id.setdefault(k['id'], [k, first, 0, []]); e[2] += n; e[3].append(first['cls'])
    for k, first, n, classes in by_id.values():
        print(f'KNOWN-FINDING: property={prop} {k["id"]}: {k["description"]} (seen {n}x as {",".join(sorted(set(classes)))}; e.g. seed {first["seed"]}: {first["detail"][:160]})')
    for k in confirmed:
        print(f'KNOWN-FINDING: property={prop} {k["id"]}: {k["description"]} (stored replay {k["replay"]} still fails)')
    for first, path, n in violations_out:
        print(f'VIOLATION property={prop} replay={path}')
        print(f'  class={first["cls"]} seeds_hit={n} first_seed={first["seed"]} variant={first["variant"]} detail={first["detail"][:300]}')
    write_evidence(prop, tier, base_seed, all_results, all_crashes, violations_out, known_out, time.time() - t0, variants, edges, det_checked, 0, nworkers)
    if harness_err and not violations_out:
        return 2
    return 1 if violations_out else 0


def load_plan_file(p):
    if p.endswith('.json'):
        return '\n'.join(json.load(open(p))['plan'])
    return open(p).read()


def write_evidence(prop, tier, seed, results, crashes, violations, known_out, wall, variants, edges, det_checked, det_bad, nworkers):
    os.makedirs(EVID, exist_ok=True)
    evals = sum(r.get('evals', 1) for r in results) + len(crashes)
    runs = len(results)
    nt_hashes = set()
    units = set()
    for r in results:
        if r.get('nt_units', 0):
            for u in r.get('units', []):
                units.add(u)
        if r.get('nontrivial'):
            nt_hashes.add(r['hash'] if prop not in ('C06', 'C07') else r['shash'])
    distinct_nt = len(units) if units else len(nt_hashes)
    ctr = {}
    for r in results:
        for k, v in r.get('ctr', {}).items():
            if k in ('queue_states_total', 'queue_max_count'):
                ctr[k] = max(ctr.get(k, 0), v)
            else:
                ctr[k] = ctr.get(k, 0) + v
    sim_s = sum(r.get('sim_ns', 0) for r in results) / 1e9
    faults = {k[6:]: v for k, v in ctr.items() if k.startswith('fault_')}
    probes = {k[6:]: v for k, v in ctr.items() if k.startswith('probe_')}
    samples = []
    for r in results[:3]:
        samples.append({'run_index': r['i'], 'run_seed': r['seed'], 'variant': r['variant'], 'case': r.get('sample', ''), 'run_hash': r['hash'], 'violations': [v['cls'] for v in r['viol']]})
    if results:
        try:
            exe = os.path.join(BUILD, results[0]['variant'], 'jlssim')
            samples.append({'plan_of_run_seed': results[0]['seed'], 'plan': plan_of_result(exe, prop, results[0]['seed'], tier).split('\n')[:60]})
        except Exception:
            pass
    ev = {
        'property_id': prop, 'tier': tier, 'seed': seed, 'level': LEVEL.get(prop, 'exploration'),
        'coverage': {
            'evaluations': int(evals), 'distinct_nontrivial': int(distinct_nt), 'rule': RULES.get(prop, ''), 'samples': samples or [{'note': 'no run completed'}],
            'simulated_runs': runs, 'runs_per_hour': round(runs / wall * 3600) if wall > 0 else 0, 'evaluations_per_hour': round(evals / wall * 3600) if wall > 0 else 0,
            'simulated_seconds': round(sim_s, 3), 'faults_injected': faults, 'probes_hit': probes,
            'distinct_schedules': len(set(r['shash'] for r in results)), 'distinct_run_hashes': len(set(r['hash'] for r in results)),
            'distinct_units': len(units), 'library_edges_covered': edges, 'counters': {k: v for k, v in ctr.items() if not k.startswith(('fault_', 'probe_'))},
            'worker_deaths': [{'class': c['cls'], 'detail': c['detail'][:200], 'seed': c['seed']} for c in crashes[:10]],
            'determinism_sample': {'reruns_in_fresh_process': det_checked, 'hash_mismatches': det_bad},
            'variants': variants, 'workers': nworkers,
            'components': {'real': ['src/*.c of /repo incl. backend_posix.c (unmodified except JLS_VERIF hooks)'],
                           'stub': ['open/close/read/write/lseek/fsync/ftruncate -> SimFS', 'pthread_* -> cooperative scheduler', 'clock_gettime/nanosleep -> virtual clock', 'malloc/calloc/realloc/free -> accounting allocator']},
            'known_findings_printed': [k['id'] for k, _, _ in known_out],
            'regression_corpus_replays': CORPUS['n'],
        },
        'assumptions': ASSUMPTIONS, 'wall_s': round(wall, 2), 'violations': len(violations),
    }
    json.dump(ev, open(os.path.join(EVID, prop + '.json'), 'w'), indent=1)


def cmd_replay(path):
    if path.endswith('.json'):
        j = json.load(open(path))
        variant, tier, plan = j.get('variant', 'asan'), j.get('tier', 'quick'), '\n'.join(j['plan'])
        expect = j.get('expect', {}).get('class')
    else:
        variant, tier, plan, expect = 'asan', 'quick', open(path).read(), None
    exe = build(variant)
    classes, h, details = replay_plan(exe, plan, tier)
    print('classes:', sorted(classes), 'run_hash:', h)
    for c in sorted(classes):
        print(' ', c, '::', details.get(c, '')[:400])
    if expect:
        print('expected class', expect, '->', 'REPRODUCED' if expect in classes else 'NOT reproduced')
        return 1 if expect in classes else 0
    return 1 if classes else 0


def cmd_determinism(props, nseeds, tier):
    bad = 0
    for prop in props:
        variants = VARIANTS.get(prop, {}).get(tier, ['asan'])
        for v in variants:
            exe = build(v)
            outs = []
            for nw, order in ((4, 1), (16, -1)):
                res, cr, _ = run_workers_count(exe, prop, tier, 1, nw, nseeds)
                outs.append({r['i']: r['hash'] for r in res})
            common = set(outs[0]) & set(outs[1])
            mism = [i for i in common if outs[0][i] != outs[1][i]]
            print(f'{prop}/{v}: {len(common)} seeds compared across 4 and 16 workers, {len(mism)} hash mismatches', mism[:5])
            bad += len(mism)
    return 2 if bad else 0


def run_workers_count(exe, prop, tier, base, nworkers, total):
    os.makedirs(TMP, exist_ok=True)
    procs = []
    per = (total + nworkers - 1) // nworkers
    for w in range(nworkers):
        cmd = [exe, 'run', prop, '--base', str(base), '--start', str(w), '--stride', str(nworkers), '--count', str(per), '--tier', tier]
        procs.append(subprocess.Popen(cmd, stdout=subprocess.PIPE, stderr=subprocess.DEVNULL, cwd=ROOT))
    res = []
    for p in procs:
        out, _ = p.communicate()
        for line in out.split(b'\n'):
            try:
                d = json.loads(line)
            except Exception:
                continue
            if 'viol' in d and d['i'] < total:
                res.append(d)
    return res, [], 0


def main():
    a = sys.argv[1:]
    if not a:
        print(__doc__); return 2
    def opt(name, default=None):
        return a[a.index(name) + 1] if name in a else default
    if a[0] == 'check':
        prop = a[1]
        tier = opt('--tier', os.environ.get('VERIF_TIER', 'quick'))
        budget = float(opt('--budget-s', os.environ.get('VERIF_BUDGET_S', DEFAULT_BUDGET[tier])))
        workers = int(opt('--workers', os.environ.get('VERIF_WORKERS', '16')))
        seed = int(os.environ.get('VERIF_SEED', '1'))
        variants = [opt('--variant')] if opt('--variant') else VARIANTS.get(prop, {}).get(tier, ['asan'])
        return cmd_check(prop, tier, budget, workers, variants, seed)
    if a[0] == 'replay':
        return cmd_replay(a[1])
    if a[0] == 'selftest' and a[1] == 'determinism':
        props = opt('--props', 'C01').split(',')
        return cmd_determinism(props, int(opt('--seeds', '400')), opt('--tier', 'quick'))
    print(__doc__)
    return 2


if __name__ == '__main__':
    sys.exit(main())
