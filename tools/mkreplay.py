#!/usr/bin/env python3
"""Wrap a plan text file into a replay JSON (same layout simctl.py writes): tools/mkreplay.py <plan> <class> <out.json> [variant] [tier]"""
import json, subprocess, sys, os
ROOT = os.path.dirname(os.path.dirname(os.path.abspath(__file__)))
plan, cls, out = sys.argv[1:4]
variant = sys.argv[4] if len(sys.argv) > 4 else 'asan'
tier = sys.argv[5] if len(sys.argv) > 5 else 'quick'
text = ''.join(l for l in open(plan) if l.strip())
note = ''
lines = text.split('\n')
if lines[0].startswith('# minimised'):
    note = lines[0]; lines = lines[1:]
text = '\n'.join(lines)
tmp = out + '.tmp.plan'
open(tmp, 'w').write(text)
r = subprocess.run([os.path.join(ROOT, 'build', variant, 'jlssim'), 'replay', tmp, '--tier', tier], stdout=subprocess.PIPE, stderr=subprocess.DEVNULL)
os.unlink(tmp)
d = None
for l in r.stdout.split(b'\n'):
    try:
        j = json.loads(l)
    except Exception:
        continue
    if 'viol' in j:
        d = j
prop = [l.split()[1] for l in lines if l.startswith('prop ')][0]
seed = int([l.split()[1] for l in lines if l.startswith('seed ')][0])
v = [x for x in (d['viol'] if d else []) if x['cls'] == cls]
if not v:
    print('class not reproduced; classes:', sorted(set(x['cls'] for x in (d['viol'] if d else []))), 'rc', r.returncode); sys.exit(1)
json.dump({'property': prop, 'variant': variant, 'tier': tier, 'run_seed': seed, 'run_index': -1, 'expect': {'class': cls, 'detail': v[0]['detail']},
           'run_hash': d['hash'], 'minimised': note, 'plan': text.split('\n')}, open(out, 'w'), indent=1)
print('wrote', out, v[0]['detail'][:200])
