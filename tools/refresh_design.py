#!/usr/bin/env python3
"""Refreshes the generated tables of DESIGN.md (14.1 repaired defects, 14.2 open findings) from known_findings.json and /repo's log."""
import json, subprocess, re
k = json.load(open('/verif/known_findings.json'))['findings']
order = [l.split()[0] for l in subprocess.run(['git', '-C', '/repo', 'log', '--reverse', '--format=%h'], stdout=subprocess.PIPE, text=True).stdout.split('\n') if l]
byc = {}
for f in k:
    if f['status'] == 'fixed':
        byc.setdefault(f['commit'], []).append(f)
rows = [f"| `{c}` | {', '.join(x['property'] for x in byc[c])} | {'; '.join(x['description'] for x in byc[c])} |" for c in order if c in byc]
s = open('/verif/DESIGN.md').read()
i = s.index('| commit | property | what failed |'); j = s.index('\n\nPatterns:', i)
s = s[:i] + '| commit | property | what failed |\n|---|---|---|\n' + '\n'.join(rows) + s[j:]
s = re.sub(r'alarm\*\. \d+ genuine defects were repaired', f'alarm*. {len(rows)} genuine defects were repaired', s)
n_open = sum(1 for f in k if f['status'] == 'open')
open_rows = []
for f in k:
    if f['status'] == 'open':
        props = f['property'] + (' (+' + ','.join(f['also_properties']) + ')' if f.get('also_properties') else '')
        open_rows.append(f"* **{f['id']}** ({props}; class `{f['match']['cls']}`{', stored replay only' if f.get('replay_only') else ''}; replay `{f.get('replay','-')}`): {f['description']}. *Not repaired because:* {f['why_not_fixed']}.")
i = s.index('### 14.2 Open known findings\n') + len('### 14.2 Open known findings\n'); j = s.index('\nMatching is by violation class', i)
s = s[:i] + '\n' + '\n'.join(open_rows) + '\n' + s[j:]
open('/verif/DESIGN.md', 'w').write(s)
print(len(rows), 'repaired,', n_open, 'open')
