#!/bin/bash
# Measurement aid, not a check: line coverage of /repo/src reached by N seeded runs of every property's workload.
# Usage: tools/coverage.sh [runs per property, default 150]   -> build/coverage/report.txt, build/coverage/uncovered_functions.txt
set -u
N=${1:-150}
cd /verif && make -j16 cov >/dev/null || exit 2
rm -rf build/coverage && mkdir -p build/coverage/raw
export LLVM_PROFILE_FILE=/verif/build/coverage/raw/%8m.profraw
for p in C01 C02 C03 C04 C05 C06 C07 C08 C09 C10 C11 C12 C13 C14 C15 C17 C19; do
  n=$N; case $p in C03|C04|C19|C17) n=$((N/15+2));; esac
  for w in 0 1 2 3 4 5 6 7; do build/cov/jlssim run $p --base 1 --start $w --stride 8 --count $((n/8+1)) --tier quick >/dev/null 2>&1 & done; wait
done
llvm-profdata-14 merge -sparse build/coverage/raw/*.profraw -o build/coverage/all.profdata
llvm-cov-14 report build/cov/jlssim -instr-profile=build/coverage/all.profdata /repo/src > build/coverage/report.txt
llvm-cov-14 report build/cov/jlssim -instr-profile=build/coverage/all.profdata -show-functions /repo/src/*.c 2>/dev/null | awk '$NF=="0.00%" || $(NF-3)=="0.00%"' > build/coverage/uncovered_functions.txt
tail -25 build/coverage/report.txt
