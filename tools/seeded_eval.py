#!/usr/bin/env python3
"""Runs the quick check(s) of the property each seeded change in /verif/seeded/<id>/patch.diff breaks, against a tree with
that change applied, and prints which check reported what.
Default mode: a scratch worktree of /repo HEAD under /tmp gets the patch and the checks are pointed at it (VERIF_REPO,
VERIF_BUILD_DIR), so /repo is never touched and other runs are not disturbed; the worktree is removed afterwards.
--in-repo: apply the patch to /repo itself (git -C /repo apply), run, and undo it straight afterwards (git -C /repo checkout -- .).
Usage: seeded_eval.py [id ...] [--budget-s N] [--in-repo]"""
import json, os, subprocess, sys, re, time, shutil
ROOT = '/verif'
args = sys.argv[1:]
in_repo = '--in-repo' in args
budget = '30'
if '--budget-s' in args: budget = args[args.index('--budget-s') + 1]
ids = [a for a in args if not a.startswith('--') and not a.isdigit()]
if not ids: ids = sorted(os.listdir(os.path.join(ROOT, 'seeded')))
out = {}
for sid in ids:
    d = os.path.join(ROOT, 'seeded', sid)
    meta = json.load(open(os.path.join(d, 'meta.json'))) if os.path.exists(os.path.join(d, 'meta.json')) else {}
    prop = meta.get('property', re.sub(r'[ab]$', '', sid))
    checks = meta.get('checks', [prop])
    env = dict(os.environ); env['VERIF_NO_REPLAY_WRITE'] = '1'; env['VERIF_EVIDENCE_DIR'] = os.path.join(ROOT, 'build', 'evidence_scratch')
    wt = None
    if in_repo:
        assert subprocess.run(['git', '-C', '/repo', 'status', '--porcelain', '--untracked-files=no'], stdout=subprocess.PIPE, text=True).stdout.strip() == '', '/repo not clean'
        tree = '/repo'
    else:
        wt = f'/tmp/evalwt_{sid}'; bd = f'/tmp/evalbuild_{sid}'
        subprocess.run(['git', '-C', '/repo', 'worktree', 'remove', '--force', wt], stderr=subprocess.DEVNULL)
        assert subprocess.run(['git', '-C', '/repo', 'worktree', 'add', '-q', wt, 'HEAD']).returncode == 0
        tree = wt; env['VERIF_REPO'] = wt; env['VERIF_BUILD_DIR'] = bd
    r = subprocess.run(['git', '-C', tree, 'apply', os.path.join(d, 'patch.diff')])
    res = {}
    try:
        if r.returncode != 0:
            out[sid] = 'patch does not apply'; print(sid, out[sid], flush=True); continue
        for c in checks:
            t0 = time.time()
            p = subprocess.run(['python3', os.path.join(ROOT, 'simctl.py'), 'check', c, '--tier', 'quick', '--budget-s', budget], stdout=subprocess.PIPE, stderr=subprocess.STDOUT, text=True, cwd=ROOT, env=env)
            classes = re.findall(r'class=(\S+)', p.stdout)
            res[c] = {'exit': p.returncode, 'classes': sorted(set(classes)), 'wall_s': round(time.time() - t0, 1), 'harness_errors': len(re.findall(r'HARNESS-ERROR', p.stdout))}
    finally:
        if in_repo:
            subprocess.run(['git', '-C', '/repo', 'checkout', '--', '.'])
        else:
            subprocess.run(['git', '-C', '/repo', 'worktree', 'remove', '--force', wt]); shutil.rmtree(bd, ignore_errors=True)
    out[sid] = res
    print(sid, json.dumps(res), flush=True)
json.dump(out, open(os.path.join(ROOT, 'build', 'seeded_eval_last.json'), 'w'), indent=1)
