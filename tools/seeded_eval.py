#!/usr/bin/env python3
"""Applies each seeded change in /verif/seeded/<id>/patch.diff to /repo, runs the quick check(s) of the property it breaks,
restores /repo, and prints which check reported what.  Usage: seeded_eval.py [id ...] [--budget-s N]"""
import json, os, subprocess, sys, re, time
ROOT = '/verif'
ids = [a for a in sys.argv[1:] if not a.startswith('--') and not a.isdigit()]
budget = '30'
if '--budget-s' in sys.argv: budget = sys.argv[sys.argv.index('--budget-s') + 1]
if not ids: ids = sorted(os.listdir(os.path.join(ROOT, 'seeded')))
out = {}
for sid in ids:
    d = os.path.join(ROOT, 'seeded', sid)
    meta = json.load(open(os.path.join(d, 'meta.json'))) if os.path.exists(os.path.join(d, 'meta.json')) else {}
    prop = meta.get('property', re.sub(r'[ab]$', '', sid))
    checks = meta.get('checks', [prop])
    assert subprocess.run(['git', '-C', '/repo', 'status', '--porcelain', '--untracked-files=no'], stdout=subprocess.PIPE, text=True).stdout.strip() == '', '/repo not clean'
    r = subprocess.run(['git', '-C', '/repo', 'apply', os.path.join(d, 'patch.diff')])
    if r.returncode != 0:
        out[sid] = 'patch does not apply'; print(sid, out[sid]); continue
    res = {}
    try:
        for c in checks:
            t0 = time.time()
            env = dict(os.environ); env['VERIF_NO_REPLAY_WRITE'] = '1'; env['VERIF_EVIDENCE_DIR'] = os.path.join(ROOT, 'build', 'evidence_scratch')
            p = subprocess.run(['python3', os.path.join(ROOT, 'simctl.py'), 'check', c, '--tier', 'quick', '--budget-s', budget], stdout=subprocess.PIPE, stderr=subprocess.STDOUT, text=True, cwd=ROOT, env=env)
            classes = re.findall(r'class=(\S+)', p.stdout)
            res[c] = {'exit': p.returncode, 'classes': sorted(set(classes)), 'wall_s': round(time.time() - t0, 1), 'harness_errors': len(re.findall(r'HARNESS-ERROR', p.stdout))}
    finally:
        subprocess.run(['git', '-C', '/repo', 'checkout', '--', '.'])
    out[sid] = res
    print(sid, json.dumps(res))
json.dump(out, open(os.path.join(ROOT, 'build', 'seeded_eval_last.json'), 'w'), indent=1)
