#!/bin/bash
# Confirms a seeded change in a scratch worktree of /repo (current HEAD): the patch applies, the pinned suite still passes,
# the demonstration fails with the change and passes without it.  Usage: tools/seeded_confirm.sh <id> [extra cc flags]
set -u
id=$1; shift; extra="$*"
d=/verif/seeded/$id; w=/tmp/confirm_$id
rm -rf $w; git -C /repo worktree add -q $w HEAD || exit 2
cd $w; mkdir -p OUT
[ -f $d/cflags ] && extra="$extra $(cat $d/cflags)"
SRCS="src/bit_shift.c src/buffer.c src/copy.c src/core.c src/crc32c.c src/datatype.c src/ec.c src/log.c src/msg_ring_buffer.c src/raw.c src/reader.c src/statistics.c src/threaded_writer.c src/tmap.c src/track.c src/wr_fsr.c src/wr_ts.c src/writer.c src/backend_posix.c"
build_demo() { 
  if grep -q "msg_ring_buffer.c" $d/build_cmd 2>/dev/null; then cc -std=c11 -I include -I include_prv $d/demo.c src/msg_ring_buffer.c src/log.c -o $w/demo_bin; 
  elif [ -f $d/asan_sources ]; then clang -fsanitize=address -fno-omit-frame-pointer -g -O1 -w -I include -I include_prv -D__FILENAME__=\"x\" -msse4.2 $SRCS $d/demo.c -lm -lpthread -o $w/demo_bin;
  else cc -O1 -g -I include -I include_prv $d/demo.c _build/src/libjls.a -lm -lpthread $extra -o $w/demo_bin; fi; }
res=""
cmake -G Ninja -B _build >/dev/null 2>&1 && cmake --build _build >/dev/null 2>&1 || { echo "$id: baseline build failed"; exit 2; }
build_demo || { echo "$id: demo build failed (unpatched)"; }
timeout 300 ./demo_bin > $w/out_clean.txt 2>&1; rc_clean=$?
if ! git apply --check $d/patch.diff 2>/dev/null; then echo "$id: patch does not apply to current HEAD"; git -C /repo worktree remove --force $w; exit 3; fi
git apply $d/patch.diff
cmake --build _build >/dev/null 2>&1 || { echo "$id: patched build failed"; git -C /repo worktree remove --force $w; exit 2; }
tests=$(ctest --test-dir _build -j1 --timeout 900 2>&1 | grep -E "tests passed|tests failed" | head -1)
build_demo
timeout 300 ./demo_bin > $w/out_patched.txt 2>&1; rc_patched=$?
echo "$id: suite with patch: [$tests]; demo rc clean=$rc_clean patched=$rc_patched"
cd /; git -C /repo worktree remove --force $w
