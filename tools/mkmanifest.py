#!/usr/bin/env python3
# Regenerates /verif/MANIFEST.json from the table below (run after adding a check).
import json, os, subprocess
ROOT = os.path.dirname(os.path.dirname(os.path.abspath(__file__)))
props = [json.loads(l) for l in open(os.path.join(ROOT, 'properties.jsonl'))]
hooks = subprocess.run(['git', '-C', '/repo', 'log', '--format=%h %s'], stdout=subprocess.PIPE, text=True).stdout.split('\n')
hook_commits = [l.split()[0] for l in hooks if 'verif hook' in l]
TRUST = ('Trusted: reference model + tolerance constants (sim/model.cpp, sim/oracles.cpp); SimFS POSIX subset; cooperative scheduler pthread semantics; '
         'clang ASan/UBSan(bounds,null) + trace-pc-guard instrumentation; crash model = process stop. Sampled by seed, not enumerated.')
CHECKS = {
 'C01': ('A', 'exploration', 'seeded store round trip under simulation (fault-free configuration) vs bit-exact reference model', '7 C01',
         'Seeded writer programs (all 15 types, definition parameters incl. defaults, write partitions, first ids; 15% through the threaded writer under a seeded schedule) are written into SimFS and read back through windows from a boundary catalogue on warm and cold readers; every length and sample is compared bit for bit with a trivially simple model. Sampling, not enumeration: evidence, not proof.'),
 'C02': ('A', 'exploration', 'seeded store round trip under simulation vs exact long-double statistics of the model with fixed precision-derived tolerances', '7 C02',
         'Statistics requests chosen to hit every summary level present are compared with exact statistics of the model: min/max exact after storage conversion, mean within c*eps_store, std within [sqrt(9/10),1]*sigma, multi-window entries within widened extremes, average of means = exact mean.'),
 'C11': ('A', 'exploration', 'seeded store round trip under simulation vs list model with the seek-tail rule', '7 C11',
         'Annotation programs (0..3 index levels, decimation 2/3/10/100, runs of equal timestamps, all storage types, global/VSR/FSR signals) are read back from -inf and from seek points; delivered lists must be the exact tail required by the statement; stop requests must stop.'),
 'C12': ('A', 'exploration', 'seeded store round trip under simulation vs list model and exact 128-bit rational interpolation', '7 C12',
         'UTC programs (0,1,2,999..1001 and more entries; decimations; offsets; rates to 1e9) are read back and id<->time conversions are checked against exact rational interpolation within one tick / one sample.'),
 'C13': ('A', 'exploration', 'seeded store round trip under simulation vs definition / user-data model; rejected calls must leave no byte changed', '7 C13',
         'Sources, signals (ids 1..255, strings absent/empty/UTF-8/long) and user data (0 B .. MiB) round trip; duplicate ids, undefined sources and data for undefined signals must be rejected.'),
}
NA = {
 'C16': 'pure function of four integers (definition normalisation): no schedule, clock, fault, I/O or shared state for a simulation to control; deciding it over the 32-bit domain is model checking / SMT, a different technique',
 'C18': 'pure function of a byte string (CRC-32C): nothing for deterministic simulation to schedule or fault; incidental: the independent decoder re-derives every CRC the library writes',
 'C20': 'pure floating-point algebra on accumulator structs: no state outside the arguments, no I/O, no concurrency',
}
checks, na = [], []
for p in props:
    pid = p['id']
    if pid in CHECKS:
        eng, level, tech, ref, text = CHECKS[pid]
        checks.append({
            'property_id': pid,
            'quick_cmd': f'python3 simctl.py check {pid} --tier quick',
            'thorough_cmd': f'python3 simctl.py check {pid} --tier thorough',
            'evidence_file': f'/verif/evidence/{pid}.json',
            'replay_cmd_template': 'python3 simctl.py replay {path}',
            'engine': 'jlssim-' + eng,
            'level_claimed': {'category': level, 'text': text, 'design_ref': 'DESIGN.md section ' + ref},
            'level_note': TRUST,
            'technique': 'deterministic simulation with fault injection: ' + tech,
        })
    elif pid in NA:
        na.append({'property_id': pid, 'reason': NA[pid]})
    else:
        na.append({'property_id': pid, 'reason': 'check under construction in this session (engine not registered yet); see DESIGN.md section 7 for the planned simulation'})
m = {
 'version': 1,
 'setup_cmd': 'make -C /verif -j16 all',
 'hooks': {'guard': 'JLS_VERIF', 'enable': '/verif/Makefile compiles /repo/src/*.c directly with -DJLS_VERIF (no CMake), one object directory per variant (asan, plain, swcrc, race)',
           'baseline_off_cmd': 'cmake --build /repo/_build && ctest --test-dir /repo/_build -j1 --timeout 900', 'source_commits': hook_commits, 'add_only': True},
 'engines': [
   {'name': 'jlssim-A', 'path': '/verif/sim', 'serves_properties': ['C01', 'C02', 'C09', 'C11', 'C12', 'C13', 'C15', 'C17', 'C10', 'C05', 'C14'], 'kind_free_text': 'deterministic simulator (SimFS, virtual clock, cooperative tasks, accounting allocator) running writer -> file -> reader programs, fault-free configuration'},
   {'name': 'jlssim-B', 'path': '/verif/sim', 'serves_properties': ['C03', 'C19', 'C17'], 'kind_free_text': 'crash-point enumeration over the SimFS write log (process stop after k writes / b bytes)'},
   {'name': 'jlssim-C', 'path': '/verif/sim', 'serves_properties': ['C04'], 'kind_free_text': 'stored-bit fault injection on closed files'},
   {'name': 'jlssim-D', 'path': '/verif/sim', 'serves_properties': ['C06', 'C07', 'C08'], 'kind_free_text': 'threaded writer under seeded schedules, virtual time, stalls, latency, spurious wake-ups, EINTR, clock jumps'},
 ],
 'checks': checks,
 'not_applicable': na,
 'notes': 'Known findings: /verif/known_findings.json (open entries print KNOWN-FINDING lines; fixed entries suppress nothing). Replay files: /verif/replays. VERIF_SEED selects the seed base, VERIF_BUDGET_S / VERIF_WORKERS override budget and worker count.',
}
json.dump(m, open(os.path.join(ROOT, 'MANIFEST.json'), 'w'), indent=1)
print('checks:', [c['property_id'] for c in checks], 'n/a:', [n['property_id'] for n in na])
