#!/usr/bin/env python3
# Regenerates /verif/MANIFEST.json from the table below (run after adding a check).
import json, os, subprocess
ROOT = os.path.dirname(os.path.dirname(os.path.abspath(__file__)))
props = [json.loads(l) for l in open(os.path.join(ROOT, 'properties.jsonl'))]
hooks = subprocess.run(['git', '-C', '/repo', 'log', '--format=%h %s'], stdout=subprocess.PIPE, text=True).stdout.split('\n')
hook_commits = [l.split()[0] for l in hooks if 'verif hook' in l]
TRUST = ('Trusted: reference model + tolerance constants (sim/model.cpp, sim/oracles.cpp); SimFS POSIX subset; cooperative scheduler pthread semantics; '
         'clang ASan/UBSan(bounds,null) + trace-pc-guard instrumentation; crash model = process stop. Sampled by seed, not enumerated.')
CHECKS = {
 'C01': ('A', 'exploration', 'seeded store round trip under simulation (fault-free configuration) vs bit-exact reference model', '7 C01',
         'Seeded writer programs (all 15 types, definition parameters incl. defaults, write partitions, first ids; 15% through the threaded writer under a seeded schedule) are written into SimFS and read back through windows from a boundary catalogue on warm and cold readers; every length and sample is compared bit for bit with a trivially simple model. Sampling, not enumeration: evidence, not proof.'),
 'C02': ('A', 'exploration', 'seeded store round trip under simulation vs exact long-double statistics of the model with fixed precision-derived tolerances', '7 C02',
         'Statistics requests chosen to hit every summary level present are compared with exact statistics of the model: min/max exact after storage conversion, mean within c*eps_store, std within [sqrt(9/10),1]*sigma, multi-window entries within widened extremes, average of means = exact mean.'),
 'C11': ('A', 'exploration', 'seeded store round trip under simulation vs list model with the seek-tail rule', '7 C11',
         'Annotation programs (0..3 index levels, decimation 1/2/3/10/100, runs of equal timestamps, all storage types, global/VSR/FSR signals with first ids 0, positive and negative) are read back from -inf and from seek points; the delivered list must be a contiguous tail containing every annotation at or after the seek time and at most one earlier; stop requests must stop.'),
 'C12': ('A', 'exploration', 'seeded store round trip under simulation vs list model and exact 128-bit rational interpolation', '7 C12',
         'UTC programs (0,1,2,999..1001 and more entries; decimations; offsets; rates to 1e9) are read back and id<->time conversions are checked against exact rational interpolation within one tick / one sample.'),
 'C13': ('A', 'exploration', 'seeded store round trip under simulation vs definition / user-data model; rejected calls must leave no byte changed', '7 C13',
         'Sources, signals (ids 1..255; strings absent, empty, UTF-8, with control and high bytes, long enough to cross the 1 MiB string blocks of reader and writer) and user data (0 B .. MiB) round trip; duplicate ids, undefined sources and data for undefined signals must be rejected, and a definition the writer refuses (a string that cannot fit a block) must leave no trace: the identity rules afterwards are judged against what the writer answered.'),
 'C03': ('B', 'fault_enumeration', 'crash-point enumeration over the simulated write log (process stop after k backend writes and inside write k+1), reopen checked against the submitted-prefix model', '7 C03',
         'Each seeded writer program (several signals/types, 1..4 summary levels, omitted blocks, annotations/UTC/user data interleaved, small decimations) is run once with the backend write log recorded; every boundary and a sample of byte-prefixes of every write (all of them for short writes; quick tier caps the images per program) become crash images that are reopened by the real reader in a forked child. Lengths, samples, statistics, annotations, UTC and user data must agree with the submitted prefix; boundary images with all definitions on disk must open and keep every durable sample. Exhaustive over crash points per program, sampled over programs.'),
 'C04': ('C', 'fault_enumeration', 'stored-bit fault injection on closed files (single/2/3-bit flips, <=32-bit bursts per protected region, zeroed and overwritten ranges, multi-chunk combinations) under three CRC implementations', '7 C04',
         'Closed files produced by seeded programs are decoded by the independent decoder into protected regions; alterations are applied per region and every reader call on the altered file must fail or return exactly the original content (or a correct prefix after a repair); a call that failed is repeated once straight away and held to the same rule. Small files: every bit position; larger: seeded samples per region and class. Thorough tier repeats under the software CRC build.'),
 'C05': ('A', 'exploration', 'seeded writer programs under simulation; every produced file is walked by an independent decoder written from format.h only (own bit-serial CRC-32C), structure and content compared with the model', '7 C05',
         'Chunk framing, CRCs, payload_prev_length, doubly linked lists, head tables, index/summary pairing, timestamps and entry counts per level, END chunk and file header length are checked on every closed file, and the decoded content (definitions, samples, summaries recomputed from samples, annotations, UTC, user data) must equal the model.'),
 'C06': ('D', 'exploration', 'threaded writer under seeded schedules (run-to-block, uniform, PCT, quantum) with stalls, latency, spurious wake-ups, EINTR; applied-call history checked against per-producer submission order, final file against the synchronous writer; own happens-before race detector on a TSan-instrumented build', '7 C06',
         'Every accepted call must be applied exactly once, in per-producer order, with identical arguments and payload bytes; the closed file must read back like the file the synchronous writer produces for the same accepted calls; no data race on library state (vector-clock detector fed by the simulated mutex/create/join edges, preemption at instrumented accesses).'),
 'C07': ('D', 'exploration', 'threaded writer under seeded schedules and virtual time: flush/close completion, bounded waiting once faults stop, no deadlock or livelock (deterministic step budget and virtual-time horizon)', '7 C07',
         'After jls_twr_flush returns 0 every previously accepted call has been applied and reached the backend; close returns within the documented timeouts in virtual time and leaves a closed file; calls that time out under injected stalls return an error instead of blocking; liveness is judged only after the last injected fault.'),
 'C08': ('D', 'exploration', 'message ring buffer driven directly (odd seeds) and through the threaded writer (even seeds) with randomised capacity; refinement against a bounded FIFO model incl. wrap marker and free-space accounting', '7 C08',
         'Every alloc/pop sequence over randomised sizes and capacities must behave like a bounded FIFO of byte strings: messages come out once, in order, unaltered; a full queue refuses; the occupancy never exceeds the capacity; no overrun of the ring (ASan, exact-size buffer).'),
 'C09': ('A', 'exploration', 'seeded store round trip with skipped and overlapping sample ids vs model with fill values', '7 C09',
         'Writes that skip ids must read back the documented fill (NaN for floats, zero for integers) for exactly the skipped ids; overlapping or backward ids keep the samples already accepted; statistics over float windows that contain skipped samples must describe the samples that are present (min/max exact, mean within their extremes, all-NaN for a window inside a gap).'),
 'C10': ('A', 'exploration', 'seeded misuse programs (mutated ids, raw data type codes, windows, lengths, extreme parameters, oversized strings, duplicate definitions, wrong-order calls) through reader, writer, threaded writer and copy, followed by a seeded sequence of raw-layer calls (jls_raw_*: read, write, seek to arbitrary offsets, navigate, scan), all with exact-size caller buffers under ASan/UBSan(bounds) and the accounting allocator; deterministic step budget as watchdog', '7 C10',
         'No call sequence may crash, overrun a caller buffer or a library allocation, loop forever (edge budget), or leave memory allocated after close (allocator ledger must be empty); process-killing reports are attributed to the library frame that raised them.'),
 'C14': ('A', 'exploration', 'write-once monitor over the SimFS write log of every produced file (sync and threaded writer, programs with flushes, repeated UTC ids and calls the writer refuses)', '7 C14',
         'Every backend write is classified: appends are free; a rewrite must target exactly the item_next field (plus header CRC) of an existing chunk header, a head table payload, or the file header length, and must not change any other byte. Anything else is a violation; a refused call (NULL data with a size, oversized definition) must leave nothing behind that a later write then overwrites.'),
 'C15': ('A', 'exploration', 'seeded programs with on-request and automatic omission; decoder learns which blocks are omitted; reads and statistics compared with the model', '7 C15',
         'Omitted level-0 blocks must not be stored, their summaries must be, statistics must be unaffected, and reading an omitted block must return the documented reconstruction (constant blocks exactly).'),
 'C17': ('A', 'exploration', 'jls_copy under simulation on closed files and on crash images of the same program; reader dump of the original vs reader dump of the copy; copy decoded by the independent decoder and checked against the submitted program', '7 C17',
         'Closed originals: every reader call must answer identically on original and copy, the copy must be a well-formed closed file written write-once. Unclosed originals (stops between writes, inside an appending write, and inside an in-place header rewrite): jls_copy must return; calls must agree, or the copy may extend the answer of the repaired original (tracked as known finding); the copy must never hold anything the program did not submit (not judged for the in-place case, where a chunk is lost and the hole is gap fill).'),
 'C19': ('B', 'fault_enumeration', 'same crash-point enumeration as C03; the file left by the (possibly repairing) open is decoded by the independent decoder and reopened twice; SimFS counts mutating calls', '7 C19',
         'A closed undamaged file must not receive a single mutating backend call from any read session; a repaired file must be a well-formed closed file, the second and third open must not modify it and must return exactly what the repairing session returned.'),
}
NA = {
 'C16': 'pure function of four integers (definition normalisation): no schedule, clock, fault, I/O or shared state for a simulation to control; deciding it over the 32-bit domain is model checking / SMT, a different technique',
 'C18': 'pure function of a byte string (CRC-32C): nothing for deterministic simulation to schedule or fault; incidental: the independent decoder re-derives every CRC the library writes',
 'C20': 'pure floating-point algebra on accumulator structs: no state outside the arguments, no I/O, no concurrency',
}
checks, na = [], []
for p in props:
    pid = p['id']
    if pid in CHECKS:
        eng, level, tech, ref, text = CHECKS[pid]
        checks.append({
            'property_id': pid,
            'quick_cmd': f'python3 simctl.py check {pid} --tier quick',
            'thorough_cmd': f'python3 simctl.py check {pid} --tier thorough',
            'evidence_file': f'/verif/evidence/{pid}.json',
            'replay_cmd_template': 'python3 simctl.py replay {path}',
            'engine': 'jlssim-' + eng,
            'level_claimed': {'category': level, 'text': text, 'design_ref': 'DESIGN.md section ' + ref},
            'level_note': TRUST,
            'technique': 'deterministic simulation with fault injection: ' + tech,
        })
    elif pid in NA:
        na.append({'property_id': pid, 'reason': NA[pid]})
    else:
        raise SystemExit('property without check or n/a reason: ' + pid)
m = {
 'version': 1,
 'setup_cmd': 'make -C /verif -j16 all',
 'hooks': {'guard': 'JLS_VERIF', 'enable': '/verif/Makefile compiles /repo/src/*.c directly with -DJLS_VERIF (no CMake), one object directory per variant (asan, plain, swcrc, race)',
           'baseline_off_cmd': 'cmake -G Ninja -S /repo -B /repo/_build && cmake --build /repo/_build && ctest --test-dir /repo/_build -j1 --timeout 900', 'source_commits': hook_commits, 'add_only': True},
 'engines': [
   {'name': 'jlssim-A', 'path': '/verif/sim', 'serves_properties': ['C01', 'C02', 'C09', 'C11', 'C12', 'C13', 'C15', 'C17', 'C10', 'C05', 'C14'], 'kind_free_text': 'deterministic simulator (SimFS, virtual clock, cooperative tasks, accounting allocator) running writer -> file -> reader programs, fault-free configuration'},
   {'name': 'jlssim-B', 'path': '/verif/sim', 'serves_properties': ['C03', 'C19', 'C17'], 'kind_free_text': 'crash-point enumeration over the SimFS write log (process stop after k writes / b bytes)'},
   {'name': 'jlssim-C', 'path': '/verif/sim', 'serves_properties': ['C04'], 'kind_free_text': 'stored-bit fault injection on closed files'},
   {'name': 'jlssim-D', 'path': '/verif/sim', 'serves_properties': ['C06', 'C07', 'C08'], 'kind_free_text': 'threaded writer under seeded schedules, virtual time, stalls, latency, spurious wake-ups, EINTR, clock jumps'},
 ],
 'checks': checks,
 'not_applicable': na,
 'notes': 'Known findings: /verif/known_findings.json (open entries print KNOWN-FINDING lines; fixed entries suppress nothing). Replay files: /verif/replays. VERIF_SEED selects the seed base, VERIF_BUDGET_S / VERIF_WORKERS override budget and worker count.',
}
json.dump(m, open(os.path.join(ROOT, 'MANIFEST.json'), 'w'), indent=1)
print('checks:', [c['property_id'] for c in checks], 'n/a:', [n['property_id'] for n in na])
